"""C03 — work per input is bounded by screen size, not by numbers in the input (DESIGN.md section 7 C03). PARTIAL by design:
time and memory are runtime facts; the theorems are about iteration / allocation counts of the model (coq/Model/Cost.v),
tied to the code by state comparison + one-sided measurements (stage C) and by the property's own limits (stage S)."""
import base64, struct

ID = 'C03'
GENERATORS = ['gen_font',            # Model/Font.v (reused for glyphs_from_u8_data) needs Gen/FontConsts.v
              'gen_sixel',           # Gen/SixelGen.v: MAX_SIXEL_DIMENSION of src/sixel_mod.rs and the three places that apply it (Props/C03.v sixel_limit_tied)
              'gen_macro',           # Gen/MacroLimit.v: MAX_MACRO_NESTING (Model/AnsiTok.v astep, Model/Cost.v macro_chars)
              'gen_codepage', 'gen_formats']   # extension (e): the loader models of C05 / C02 (Model/C05*.v, Model/C02Loaders.v) need Gen/Codepage.v, Gen/Formats.v
COQ_TARGETS = ['Props/C03.vo', 'Run/RunC03.vo', 'Run/RunC03L.vo']
PROPS_MODULE = 'Props.C03'
THEOREMS = ['cost_bound', 'cost_bound_sp', 'prim_ticks_bound', 'ticks_bound_scroll', 'tick_version_same_state', 'fixed_arms_only', 'sp_arms_only',
            'rep_clamped', 'rep_linear_before_fix', 'rep_before_fix_refuted', 'hexmacro_before_fix_refuted', 'macro_recursion_before_fix_refuted', 'sixel_repeat_linear', 'sixel_raster_before_fix_refuted', 'sixel_raster_refused',
            'avatar_repeat_bound', 'glyph_iters_bound', 'window_ticks_bound',
            # extension (a): allocation
            'alloc_version_same_state', 'alloc_counts_growth', 'alloc_dominates', 'alloc_bound', 'alloc_bound_state', 'alloc_bound_sp', 'alloc_bound_dollar',
            # extension (b): weighted iteration totals, rectangle clip
            'ticks_bound', 'ticks_bound_sp', 'rect_clip', 'ticks_bound_dollar', 'ticks_bound_rqcra', 'dollar_arms_only', 'rqcra_arm_only',
            # extension (c): hex-macro repeat groups, macro replay
            'hexmacro_bound', 'hexmacro_refused', 'hexmacro_bound_before_fix', 'hexmacro_bound_cond_before_fix', 'hexmacro_linear_before_fix', 'macro_replay_bound', 'macro_replay_total', 'macro_recursion_bounded', 'macro_limit_conservative',
            'macro_invokes_half', 'macro_table_ok',
            # extension (d): sixel decoder
            'sixel_ticks_bound', 'sixel_alloc_bound', 'sixel_image_bound', 'sixel_ticks_bound_abs', 'sixel_alloc_bound_abs', 'sixel_image_bound_abs', 'sixel_limit_tied',
            # extension (e): binary loaders
            'load_ticks_bound_pair', 'load_ticks_bound_xbc', 'load_ticks_bound_tnd', 'load_ticks_bound_idf']
SWEEP_LEMMAS = []
TRUSTED = ['Coq 8.16.1 kernel + vm_compute (model evaluation in stage C); no axioms (Print Assumptions: closed)',
           'Model/Cost.v re-states the loops of Model/TermCore.v / AnsiTok.v with counters (tick_version_same_state: same state); the arms changed by the '
           'fix: commits are hand-modelled and tied by stage C (full state comparison incl. a content hash, allocation one-sided)',
           'harness/src/c03.rs (observer: wall time, rows/cells before and after, buffer/layer height, caret, widest row, content hash, peak RSS growth; kind c03st: '
           'the observation vector of harness/src/c09.rs (Term::obs) after the entry and after the probe, row lengths, tab stops)',
           'process limits of the worker (5 s wall clock, 1 GiB address space, default 8 MiB main-thread stack / 2 MiB sixel threads)',
           'extension: Model/Alloc.v (threaded allocation counters), Model/SixelCost.v, Model/LoadCost.v re-state loops of TermCore / Sixel / the C05-C02 loader models with counters; '
           'every bound theorem carries the equality with the original function, the hand-written parts are tied by the stage-C comparisons listed in RULE; '
           'the models of C05 / C02 (loaders), C14 (Sixel.v), C09/C01 (TermCore.v, AnsiTok.v) are imported unchanged']
UNMODELLED = ['real time and memory (the theorems count iterations and allocated rows/cells/bytes; Vec::insert/remove count as one step)',
              'REP (repaired: at most terminal width x height copies): inside cost_bound and ticks_bound now; still outside alloc_bound (its threaded counter rep_a is computed, dominates '
              'the growth (alloc_dominates), runs over at most width x height print_char calls (rep_clamped) and is compared one-sidedly by stage C; the amortised bound over print_char is not proved)',
              'macro replay: macro_replay_bound / macro_replay_total / macro_recursion_bounded are about macro_chars (characters replayed, nesting through the `ESC [ n * z` occurrences '
              'of the bodies, at most MAX_MACRO_NESTING levels as in the code, the chain abandoned at the first invocation beyond the limit); a macro that DEFINES macros while it is replayed '
              'is not covered by that abstraction (the character-level model AnsiTok.astep covers it: C01); the bound for NON-recursive nests is geometric in the depth (each level may replay '
              'the next several times: <= B (1 + c + .. + c^15)), which 64 input bytes cannot make large; OSC, APS, music strings: linear scans, not modelled',
              'binary loaders: the cell loops of BIN / ADF / XBin (both) / Tundra / IDF are counted (load_ticks_bound_*); rows x cells of the loaded layer are proved '
              'for the sequential loaders (pair_loop) and, for Tundra, the row count; IcyDraw (.icy) and the text loaders (ans, pcb, avt, ...) have no cost model: stage S only',
              'sixel: colour registers (palette growth by `#n`) are not counted; the decode thread / queue is C14\'s',
              'font loaders beyond glyphs_from_u8_data; states after a text-area resize (outside Inv09): stage C state comparison + stage S only']
ASSUMPTIONS = ['the state satisfies the C09 invariant Inv09 (every state reachable without a text-area resize does: Props/C09.v c09_stream); states after a resize '
               'are outside the theorems and covered by stage C (state equality with the model) and stage S (prepared states) only',
               'n >= number of parameters (each parameter occupies at least one byte of the sequence)',
               'bytes are fed as `b as char`; an Avatar repeat count is one byte (<= 255)']
RULE = ('stage S: the complete control-function table of the quantifier: every CSI final 0x40..=0x7E x intermediates {none,SP,$,*,?,=,!,<} x 0..6 parameters from '
        '{0,1,screen size,2^16,10^6,2^31-1} (quick: >= 20 sampled tuples per (final, intermediate), thorough: 150), on three set-ups (fresh, text + scrollback, '
        'margins + scrollback), ANSI and Avatar; DCS macro shapes (text, hex, repeat groups with every magnitude, self- and mutually recursive, 3-way nesting), '
        'sixel raster/repeat headers, Avatar repeats with every count byte, custom-font DCS payloads and font headers, binary file headers with extreme '
        'width/height/font size for xb, idf, tnd, adf, bin, icy, ans, pcb, avt; every input < 64 bytes, each in a worker with 5 s / 1 GiB / default stack; '
        'failure = timeout, oom, stack overflow, line table growth beyond 64 x (rows + largest text area) rows / cells, a row longer than 64 x 133, or a terminal-state '
        'field (text area, buffer/layer size, caret, margins, tab count) beyond the largest text area the engine accepts (132 x 60) resp. the allocation limits; '
        'the limits never come from the terminal size fields the input itself left. '
        'PREPARED STATES: the same table on 40 states set up by a short prefix that is part of the measured input (text area resized wider/taller than the layer or shrunk, '
        'cursor beyond the layer width / on the last row / restored after scrolling, rows extended by ECH/ICH, top/bottom and left/right margins incl. inverted, one-row, '
        'zero and beyond-screen ones, insert mode, origin mode, auto-wrap off, scrollback, tab stops cleared/added, a macro defined, form feed): every control function '
        'the engine implements (59) in EVERY state with the one-large-parameter tuple + sampled selector/large tuples (quick), every (final, intermediate) pair in every state (thorough); '
        'PROBES: after each entry with a large parameter that was accepted or changed the observable state, probe suffixes (cursor far away + print, IL DL ICH DCH ECH SU SD SL SR CVT CUU '
        'with a large count, LF, RI, HT + print, resize, ED, EL, DECERA, DECFRA) on the state it left, whole input < 64 bytes, same limits; a failure of the probe alone in that state is '
        'attributed to the probe\'s function. '
        'stage C: CSI sequences of the modelled functions with parameters below/at/above every clamp: full state equality model vs code, '
        'rows/cells allocated <= model alloc, time <= 50 x calibrated tick time + 50 ms (reported; only a blown absolute limit counts); '
        'clamped vs unclamped model on the same inputs; STATE comparison (run_state vs kind c03st): every implemented control function in every prepared state '
        '(+ random (final, intermediate) pairs, parameters up to 2^31-1, optional probe suffix): error count, caret, buffer/layer/terminal size, number of rows, margins, mode flags, '
        'tab stops, every row length, content hash must be equal after the entry and after the probe, so a sequence the model rejects must be an error without effect in the code. '
        'EXTENSION cases of stage C: the rectangle functions (4/5/6 parameters from {0,1,2,h-1,h,h+1,w-1,w,w+1,200,99999,2^31-1}, valid and invalid fill characters, valid DECRQCRA rectangles), '
        'window resize and the insert/delete key in the same random table, each with the threaded allocation counter and the instances of alloc_bound / ticks_bound; hex macros invoked after a form feed '
        '(characters printed, read off the caret, = length of the expanded macro <= zlen s (1 + hex_reps)); 24/120 nests of up to four macros (printed <= macro_chars <= B geom c depth, depth exact) '
        'and 30/150 nests around the limit MAX_MACRO_NESTING (chains of 14..19 macros, self- and mutually recursive bodies with fan-out: the invocation is an error value exactly when the model abandons the chain, printed <= macro_chars <= bound); '
        '147/627 sixel payloads (data, cursor moves, colour definitions, repeat groups <= 400, raster attributes <= 300: accept/reject, rows, bytes = rows x longest row <= sixel_image_bound); '
        '75/250 generated BIN ADF XBin (raw and well-formed compressed runs) Tundra IDF files without SAUCE (accept/reject, width height rows cells of the loaded buffer, counters within load_ticks_bound_*). '
        'non-trivial = the sequence ran a loop at least twice or changed the line table')
MODEL_IMPORTS = 'From IE Require Import Run.RunC03 Run.RunC03L.\nLocal Open Scope Z_scope.'

E = b'\x1b'
BIG = [65536, 1000000, 2147483647]
INTER = ['', ' ', '$', '*', '?', '=', '!', '<']
FINALS = list(range(0x40, 0x7F))

def hx(b):
    return b.hex() if b else '-'

def zl(b):
    return '[%s]' % '; '.join(str(x) for x in b)

NAMES = {('', 'b'): 'REP', ('', 'S'): 'SU', ('', 'T'): 'SD', ('', '@'): 'ICH', ('', 'P'): 'DCH', ('', 'L'): 'IL', ('', 'M'): 'DL', ('', 'X'): 'ECH',
         ('', 'Y'): 'CVT', ('', 'Z'): 'CBT', (' ', '@'): 'SL', (' ', 'A'): 'SR', ('', 'A'): 'CUU', ('', 'k'): 'CUU', ('', 'B'): 'CUD', ('', 'C'): 'CUF',
         ('', 'D'): 'CUB', ('', 'H'): 'CUP', ('', 'f'): 'CUP', ('', 'J'): 'ED', ('', 'K'): 'EL', ('', 't'): 'window', ('$', 'x'): 'DECFRA', ('$', 'z'): 'DECERA',
         ('$', '{'): 'DECSERA', ('*', 'y'): 'DECRQCRA', ('*', 'z'): 'macro-invoke', ('', 'r'): 'DECSTBM', ('', 'm'): 'SGR', ('', 'e'): 'VPR', ('', 'd'): 'VPA',
         ('', 'E'): 'CNL', ('', 'F'): 'CPL', ('', 'G'): 'CHA', ('', 'a'): 'HPR', ('', "'"): 'HPA',
         # the rest of what the engine implements (every arm of ansi::Parser::print_char that is not the error arm)
         ('', 'j'): 'HPB', ('', 's'): 'SCOSC/DECSLRM', ('', 'u'): 'SCORC', ('', 'n'): 'DSR', ('', 'N'): 'music-N', ('', '|'): 'music-bar', ('', 'c'): 'DA',
         ('', 'h'): 'SM', ('', 'l'): 'RM', ('', '~'): 'KEY', ('', 'g'): 'TBC', ('?', 'l'): 'DECRST', ('?', 'h'): 'DECSET', ('?', 'n'): 'DECDSR',
         ('=', 'n'): 'CTSMRR', ('=', 'r'): 'RSM', ('=', 'm'): 'SSM', ('<', 'c'): 'CTDA', ('!', 'p'): 'DECSTR', ('*', 'r'): 'DECSCS', ('$', 'w'): 'DECRQPSR',
         (' ', 'D'): 'FNT', (' ', 'd'): 'TSR'}

def fn_name(inter, final):
    return NAMES.get((inter, final), 'CSI%s%s' % (inter.replace(' ', 'SP'), final))

def csi(inter, final, params):
    ps = ';'.join('' if p is None else str(p) for p in params).encode()
    if inter in ('?', '=', '!', '<'):
        return E + b'[' + inter.encode() + ps + final.encode()
    return E + b'[' + ps + inter.encode() + final.encode()

def setups(w, h):
    text = b''.join(bytes([65 + (i % 26)]) * (w - 1) + b'\r\n' for i in range(h + 9))
    return [('fresh', b''),
            ('text+scrollback', text + E + b'[%d;%dH' % (max(1, h // 2), max(1, w // 3))),
            ('margins+scrollback', text + E + b'[2;%dr' % max(2, h - 1) + E + b'[?69h' + E + b'[2;%ds' % max(2, w - 1) + E + b'[3;3H')]

def tuples(rng, w, h, count, first_small_only=False):
    """parameter tuples of length 0..6 over {0,1,size,2^16,10^6,2^31-1}; sequences stay below 64 bytes"""
    vals = [0, 1, w * h, h, w] + BIG
    out = [(), (2147483647,), (1000000,), (65536,), (w * h,), (1,), (0,), (2147483647, 2147483647), (1, 2147483647), (2147483647, 1),
           (8, 2147483647, 2147483647), (65, 1, 1, 2147483647, 2147483647), (1, 1, 2147483647, 2147483647), (1, 1, 1, 1, 2147483647, 2147483647),
           (0, 2147483647), (1, 1000000), (2, 1000000, 1000000),
           (1, 1, 0, 0, 2147483647, min(w, 80))]      # a rectangle that is tall but not wide (DECRQCRA checks each edge separately)
    while len(out) < count:
        k = rng.randint(1, 6)
        t = tuple(rng.choice(vals) for _ in range(k))
        if len(';'.join(map(str, t))) <= 55:
            out.append(t)
    if first_small_only:
        out = [t for t in out if not t or t[0] < 2147483647]
    return out[:count] if not first_small_only else out

KNOWN_SLOW = ()             # control functions whose 2^31-1 variant burns the time limit (REP until its repair: now an ordinary table entry)
MODEL_SLOW = ('REP',)       # stage C only: the MODEL walks lists cell by cell, keep the count small there

# ---- prepared states, probes (strengthening after the missed seeds: notes/C03.md) ---------------------------------------------------
MAXW, MAXH = 132, 60          # the largest text area the engine accepts (CSI 8;h;w t clamps to it)
SNAP = ['cx', 'cy', 'bw', 'bh', 'lw', 'lh', 'tw', 'th', 'nlines', 'mt', 'mb', 'ml', 'mr', 'flags', 'ntabs', 'rowsum', 'tabsum', 'maxrow', 'cells', 'hash']
NS = len(SNAP)

def prepared_states(w, h):
    """(name, prefix): short prefixes (<= 27 bytes) that leave the terminal in a state a single control function on a fresh screen never sees.
    Every prefix is part of the measured input: prefix + table entry + probe stay below 64 bytes."""
    R = E + b'[8;60;132t'            # the maximum the engine accepts
    RX = E + b'[8;99;999t'           # asks for more (clamped)
    DN = E + b'[999B'; RT = E + b'[999C'
    st = [('fresh', b''),
          ('resized', RX),
          ('resized+ech-row+col>=layer', R + E + b'[999X' + E + b'[100G'),
          ('resized+ich-row+col>=layer', R + b'AB\r' + E + b'[99@' + E + b'[82G'),
          ('resized+last-col', R + RT),
          ('resized+last-row', R + DN),
          ('resized+last-row+last-col', R + E + b'[999;999H'),
          ('resized+text-beyond-layer', R + RT + b'XYZ'),
          ('resized+insert+last-col', R + E + b'[4h' + RT),
          ('resized+margins', R + E + b'[2;50r'),
          ('resized+lr-margins-beyond-layer', R + E + b'[?69h' + E + b'[90;120s'),
          ('resized+scrollback', R + DN + b'\n\n\n'),
          ('shrunk', E + b'[8;1;1t'),
          ('shrunk0+last-row', E + b'[8;0;0t' + DN),
          ('last-row', DN),
          ('last-row+last-col', E + b'[999;999H'),
          ('scrollback', DN + b'\n' * 6),
          ('scrollback+home', DN + b'\n' * 6 + E + b'[H'),
          ('scrollback+restored-cursor', E + b'7' + DN + b'\n' * 6 + E + b'8'),
          ('scrollback+restored-pos', E + b'[s' + DN + b'\n' * 6 + E + b'[u'),
          ('ech-row', E + b'[999X'),
          ('ich-row+last-col', b'AB\r' + E + b'[99@' + RT),
          ('margins', E + b'[2;5r'),
          ('margins-inverted', E + b'[5;2r'),
          ('margins-one-row', E + b'[1;1r'),
          ('margins-zero', E + b'[0;0r'),
          ('margins-beyond', E + b'[2;9999r'),
          ('margins+scrollback', E + b'[2;5r' + E + b'[5H' + b'\n' * 4),
          ('lr-margins', E + b'[?69h' + E + b'[2;5s'),
          ('lr-margins-inverted', E + b'[?69h' + E + b'[9;2s'),
          ('lr-margins-beyond', E + b'[?69h' + E + b'[1;9999s'),
          ('margins+lr-margins+inside', E + b'[2;5r' + E + b'[?69h' + E + b'[2;5s' + E + b'[3;3H'),
          ('insert-mode', E + b'[4h' + b'ABC\r'),
          ('origin+margins', E + b'[?6h' + E + b'[2;5r'),
          ('nowrap+last-col', E + b'[?7l' + RT),
          ('tabs-cleared', E + b'[3g'),
          ('tab-stops-set', b'A' + E + b'H' + b'AA' + E + b'H' + b'\r'),
          ('macro', E + b'P1;0;0!zA' + E + b'\\'),
          ('formfeed', b'\x0c'),
          ('formfeed+last-row', b'\x0c' + DN)]
    return st

PROBES = [('cup+print', E + b'[999999;999999HA'), ('cud+print', E + b'[999999BA'), ('cuf+print', E + b'[999999CA'), ('cuu', E + b'[999999A'),
          ('IL', E + b'[999999L'), ('DL', E + b'[999999M'), ('ICH', E + b'[999999@'), ('DCH', E + b'[999999P'), ('ECH', E + b'[999999X'),
          ('SU', E + b'[999999S'), ('SD', E + b'[999999T'), ('SL', E + b'[999999 @'), ('SR', E + b'[999999 A'), ('CVT', E + b'[999999Y'),
          ('lf', b'\n\n\n'), ('ri', E + b'M' + E + b'M'), ('tab+print', b'\tA'), ('resize', E + b'[8;999;999t'),
          ('ED', E + b'[J'), ('ED1', E + b'[1J'), ('EL', E + b'[K'), ('DECERA', E + b'[1;1;99999;99999$z'), ('DECFRA', E + b'[65;1;1;99999;99999$x')]

NAMED = sorted(NAMES)       # the (intermediate, final) pairs the engine gives a meaning to
PROBE_FN = {'cup+print': 'CUP', 'cud+print': 'CUD', 'cuf+print': 'CUF', 'cuu': 'CUU', 'lf': 'LF', 'ri': 'RI', 'tab+print': 'HT', 'resize': 'window', 'ED1': 'ED'}

def state_tuples(rng, w, h, k, name):
    """k parameter tuples for one table entry in a prepared state; the first ones carry the large values"""
    B = 2147483647
    # many functions read their first parameter as a selector (CSI 8;h;w t, CSI = k;v m, ED/EL/TBC/DSR modes): small first, large second
    base = [(B,), (1000000,), (B, B), (0, B), (1, B), (2, B), (3, B), (8, B, B), (B, 1), (65536,), (), (1, 1, B, B), (65, 1, 1, B, B), (0,), (1,), (4, B), (5, B)]
    vals = [0, 1, 2, h - 1, h, h + 1, w - 1, w, w + 1, MAXH, MAXW, MAXW + 1, 24, 100, w * h, 65536, 1000000, B]
    out = list(base[:k])
    while len(out) < k:
        r = rng.random()
        if r < 0.3: out.append((rng.randint(0, 9),) + tuple(rng.choice([65536, 1000000, B]) for _ in range(rng.choice([1, 1, 2]))))
        else: out.append(tuple(rng.choice(vals) for _ in range(rng.choice([1, 1, 2, 3, 4]))))
    if name in KNOWN_SLOW:
        out = [((min(t[0], 3000),) + t[1:]) if t else t for t in out]
    return out

def is_big(t):
    return any(p is not None and p >= 65536 for p in t)

def st_case(emu, w, h, cut, data):
    return 'c03st %d %d %d %d %s' % (emu, w, h, cut, hx(data))

def csi_table(ctx, per):
    """the control-function table: list of (name, emu, w, h, prefix, seq)"""
    rng = ctx.rng
    cases = []; slow = []
    sizes = [(80, 25), (80, 25), (40, 24), (132, 60), (5, 3)]
    for fi, f in enumerate(FINALS):
        for ii, inter in enumerate(INTER):
            final = chr(f)
            name = fn_name(inter, final)
            w, h = sizes[(fi + ii) % len(sizes)]
            sus = setups(w, h)
            known_slow = name in KNOWN_SLOW
            ts = tuples(rng, w, h, per, first_small_only=known_slow)
            for k, t in enumerate(ts):
                su = sus[k % 3]
                emu = 2 if (k % 11 == 10) else 0
                seq = csi(inter, final, t)
                if len(seq) >= 64: continue
                cases.append((name, emu, w, h, su[1], seq))
            if known_slow:
                # the 2^31-1 variant burns the whole time limit: one per set-up in thorough, one in quick
                for k in range(3 if (ctx.thorough or ctx.escalated) else 1):
                    slow.append((name, 0, w, h, sus[k][1] + b'A', csi(inter, final, (2147483647,))))
    return cases, slow

def b64(b):
    return base64.b64encode(b)

def special_cases(ctx):
    """DCS macros, sixel, avatar, fonts: (name, kind-string) ; slow: known-slow ones"""
    quick = not (ctx.thorough or ctx.escalated)
    out = []; slow = []
    def seq(name, b, emu=0, pre=b'', w=80, h=25, is_slow=False):
        assert len(b) < 64, (name, len(b))
        (slow if is_slow else out).append((name, 'seq %d %d %d %s %s' % (emu, w, h, hx(pre), hx(b))))
    ST = E + b'\\'
    # text macros
    seq('macro-text', E + b'P1;0;0!zHello' + ST + E + b'[1*z')
    seq('macro-text', E + b'P1;1;0!z' + E + b'[5b' + ST + b'A' + E + b'[1*z')
    seq('macro-text', E + b'P2147483647;0;0!zX' + ST + E + b'[2147483647*z')
    seq('macro-text', E + b'P1;0;0!z' + E + b'[1*z' + ST + E + b'[1*z')          # invoked inside the definition, not recorded
    # hex macros, repeat groups of every magnitude
    # (regression inputs of the former known class hexmacro-repeat: ordinary cases since MAX_MACRO_SIZE = 65536)
    for n in [0, 1, 2000, 32768, 32769, 65535, 65536, 65537, 1000000, 2147483647]:
        seq('hexmacro-repeat', E + b'P1;0;1!z!%d;41;' % n + ST)
        seq('hexmacro-repeat', E + b'P1;0;1!z!%d;4142' % n + ST)                                   # unterminated group
        seq('hexmacro-repeat', E + b'P1;0;1!z!%d;41;' % n + ST + E + b'[1*z')
        seq('hexmacro-repeat', E + b'P1;0;1!z!%d;;' % n + ST + E + b'[1*z')                       # empty group: nothing appended, whatever the count
        seq('hexmacro-repeat', E + b'P1;0;1!z!%d;41;!%d;42;!%d;43' % (n, n, n) + ST + E + b'[1*z')      # the groups add up
        seq('hexmacro-repeat', E + b'P1;0;1!z41!%d;42;43' % n + ST + E + b'[1*z')
    seq('hexmacro', E + b'P1;0;1!z41424344' + ST + E + b'[1*z')
    seq('hexmacro', E + b'P1;0;1!z!3;!3;41;;' + ST + E + b'[1*z')
    seq('hexmacro', E + b'P1;0;1!zZZ' + ST)
    # recursion (the former known class C03-stackoverflow:macro-recursion, repaired by the nesting limit): regression cases; with fan-out and repeat
    # groups the work would be (invocations per body)^16 if the nesting error did not abandon the whole chain
    seq('macro-recursion', E + b'P1;0;1!z1B5B312A7A' + ST + E + b'[1*z')
    seq('macro-recursion', E + b'P1;0;1!z1B5B322A7A' + ST + E + b'P2;0;1!z1B5B312A7A' + ST + E + b'[1*z')
    seq('macro-recursion', E + b'P1;0;1!z411B5B312A7A' + ST + E + b'[1*z')
    seq('macro-recursion', E + b'P1;0;1!z' + b'1B5B312A7A' * 4 + ST + E + b'[1*z')
    seq('macro-recursion', E + b'P1;0;1!z!9;411B5B312A7A;' + ST + E + b'[1*z')
    seq('macro-recursion', E + b'P1;0;1!z!65536;1B5B312A7A;' + ST + E + b'[1*z')      # (5 x 65536 characters: refused by MAX_MACRO_SIZE)
    seq('macro-recursion', E + b'P1;0;1!z!13107;1B5B312A7A;' + ST + E + b'[1*z')      # (65535 characters: the largest accepted self-invoking body)
    seq('macro-recursion', E + b'P1;0;1!z1B501B5B312A7A' + ST + E + b'[1*z' + ST)                    # recursion through the invocation inside a DCS string
    # nesting without recursion: macro 2 replays macro 1 three times
    seq('macro-nesting', E + b'P1;0;1!z41' + ST + E + b'P2;0;1!z' + b'1B5B312A7A' * 2 + ST + E + b'[2*z')
    seq('macro-nesting', E + b'P1;0;1!z!9;41;' + ST + E + b'P2;0;1!z!9;1B5B312A7A;' + ST + E + b'[2*z')
    # sixel through the parser (decode thread joined by the harness)
    # (regression inputs of the former known classes sixel-raster / sixel-repeat: ordinary cases since MAX_SIXEL_DIMENSION = 4096)
    for ww, hh in [(1, 1), (80, 25), (2000, 2000), (4096, 4096), (4097, 1), (1, 4097), (4097, 4097), (65536, 1), (1, 65536), (99999, 99999), (1000000, 1000000),
                   (2147483647, 2147483647), (0, 2147483647), (2147483647, 0)]:
        seq('sixel-raster', E + b'Pq"1;1;%d;%d~' % (ww, hh) + ST)
        seq('sixel-raster', E + b'Pq"1;1;%d;%d!%d~' % (ww, hh, ww) + ST)
    for hh in [1, 4096, 4097, 65536, 1000000, 2147483647]:
        seq('sixel-raster', E + b'Pq"1;1;%d~' % hh + ST)
    for n in [0, 1, 2000, 4095, 4096, 4097, 65536, 1000000, 10000000, 2147483647]:
        seq('sixel-repeat', E + b'Pq!%d~' % n + ST)
        seq('sixel-repeat', E + b'Pq!%d~-!%d~-!%d~' % (n, n, n) + ST)
        seq('sixel-repeat', E + b'Pq!%d-' % n + ST)
        seq('sixel-repeat', E + b'Pq!%d-~' % n + ST)
        seq('sixel-repeat', E + b'Pq!%d$' % n + ST)
        seq('sixel-repeat', E + b'Pq!%d\x80' % n + ST)
        seq('sixel-repeat', E + b'Pq!%d?!%d?!%d?~' % (n, n, n) + ST)
    seq('sixel', E + b'Pq#2147483647;2;2147483647;2147483647;2147483647~' + ST)
    seq('sixel', E + b'Pq' + b'-' * 40 + b'~' + ST)
    # Avatar repeat: every count byte
    for n in (range(256) if not quick else [0, 1, 25, 80, 127, 128, 200, 255]):
        seq('avatar-repeat', b'\x19A' + bytes([n]), emu=2)
        seq('avatar-repeat', b'\x19\n' + bytes([n]), emu=2)
    seq('avatar-repeat', b'\x19\x19\xff', emu=2)
    seq('avatar-repeat', b'\x19\x1b\xff', emu=2)
    seq('REP', E + b'[\x199\x09b', emu=2)                 # 9 digits into the pending CSI, then REP 999999999 (regression: the former known class REP)
    seq('REP', E + b'[\x199\x0ab', emu=2, pre=b'A')        # 10 digits: REP 2147483599
    for n in (1000, 2001, 1000000, 10000000, 2147483647):   # regression inputs of C03-oom/timeout/alloc:REP
        seq('REP', b'A' + E + b'[%db' % n)
        seq('REP', b'A' + E + b'[%db' % n, w=132, h=60)
        seq('REP', E + b'[2;5r' + E + b'[5;1HA' + E + b'[%db' % n)          # through margins: one scroll per wrapped row
    # custom fonts through DCS (CTerm:Font:<slot>:<base64>), payload < 64 bytes in total
    fonts = [b'\x36\x04\x00\x00', b'\x36\x04\x00\x00' + b'\x00' * 8, b'\x36\x04\x02\xff' + b'\x00' * 8, b'\x36\x04\x03\x01\x00',
             b'\x72\xb5\x4a\x86' + struct.pack('<7I', 0, 32, 0, 0xffffffff, 0xffffffff, 0xffffffff, 0xffffffff)[:20],
             b'\x72\xb5\x4a\x86' + struct.pack('<7I', 0, 32, 0, 256, 0, 0, 8)[:24], b'\x00' * 16, b'']
    for f in fonts:
        s = E + b'PCTerm:Font:0:' + b64(f) + ST
        if len(s) < 64: seq('font-dcs', s)
        out.append(('font', 'font %s' % hx(f)))
    for f in [b'\x72\xb5\x4a\x86' + struct.pack('<7I', v, 32, fl, ln, cs, hh, ww) for v in (0, 1) for fl in (0, 1) for ln in (0, 256, 0xffffffff)
              for cs in (0, 16, 0xffffffff) for hh in (0, 16, 0xffffffff) for ww in (0, 8, 0xffffffff)][::(7 if quick else 1)]:
        out.append(('font', 'font %s' % hx(f + b'\x00' * 16)))
    for hgt in [0, 1, 8, 16, 32, 255]:
        for mode in [0, 1, 2, 3, 255]:
            out.append(('font', 'font %s' % hx(b'\x36\x04' + bytes([mode, hgt]) + b'\x00' * 40)))
    # binary loaders: headers with extreme sizes, every file < 64 bytes
    def load(ext, b, name=None, is_slow=False):
        assert len(b) < 64
        (slow if is_slow else out).append((name or ('load:' + ext), 'load %s %s' % (ext, hx(b))))
    for ww in [0, 1, 80, 4096, 4097, 65535]:
        for hh in [0, 1, 25, 65535]:
            for fs in [0, 1, 16, 32, 33, 255]:
                for flags in ([0, 1, 2, 4, 7, 0x1f] if not quick else [0, 4, 0x1f]):
                    load('xb', b'XBIN\x1a' + struct.pack('<HHBB', ww, hh, fs, flags) + b'\x01\x07' * 4)
    for x1, y1, x2, y2 in [(0, 0, 79, 24), (0, 0, 65535, 65535), (65535, 65535, 0, 0), (0, 0, 0, 65535), (0, 0, 65535, 0), (1, 1, 0, 0)]:
        load('idf', b'\x041.4' + struct.pack('<HHHH', x1, y1, x2, y2) + b'\x01\x00\xff\xff\x41\x07' * 3)
        load('idf', b'\x041.4' + struct.pack('<HHHH', x1, y1, x2, y2))
    for pos in [0, 1, 80, 65535, 0x7fffffff, 0xffffffff]:
        for cmd in [1, 2, 4, 6]:
            load('tnd', b'\x18TUNDRA24' + bytes([cmd]) + struct.pack('>II', pos, pos) + b'A\x00\x00\x00\x00')
            load('tnd', b'\x18TUNDRA24' + b'A' + bytes([cmd]) + struct.pack('>II', pos, 0))
    # a jump record with ONE extreme coordinate, followed by a character (the cell write is what allocates)
    for pos in [65534, 65535, 65536, 100000, 120000, 1000000, 0x7fffffff, 0x80000000, 0xffffffff]:
        load('tnd', b'\x18TUNDRA24' + b'\x01' + struct.pack('>II', pos, 0) + b'A' + b'\x06\x01\x02\x03\x04\x05\x06\x07\x08')
        load('tnd', b'\x18TUNDRA24' + b'\x01' + struct.pack('>II', 0, pos) + b'A' + b'\x06\x01\x02\x03\x04\x05\x06\x07\x08')
        load('tnd', b'\x18TUNDRA24' + b'B\x01' + struct.pack('>II', pos, 3) + b'AB')
    for v in [0, 1, 255]:
        load('adf', bytes([v]) + b'\x3f' * 40)
    for ext in ['bin', 'ans', 'pcb', 'avt', 'asc', 'icy', 'ice', 'diz', 'seq', 'msg']:
        load(ext, b'')
        load(ext, b'A' * 63)
        if not quick or ext in ('ans', 'avt'):
            load(ext, E + b'[2147483647b', name='REP')          # the text loaders run the parsers (regression: the former known class REP)
            load(ext, b'A' + E + b'[2147483647b', name='REP')
        load(ext, b'A' + E + b'[1000000b', name='REP')
        load(ext, b'\x19A\xff' * 20)
        load(ext, E + b'[2147483647C' + b'A')
        for k, mv in enumerate([b'[2147483647BA', b'[2147483647;2147483647HA', b'[2147483647dA', b'[2147483647eA', b'[2147483647EA']):
            if not quick or (ext, k) in (('ans', 0), ('pcb', 1), ('avt', 2)):
                load(ext, E + mv, name='loader-cursor-row', is_slow=True)   # non-terminal buffer: the cursor row is not clamped (known class)
        load(ext, E + b'[100000BA')
    return out, slow

# ---- classification -------------------------------------------------------------------------------------------------------------
BAD = ('timeout', 'oom', 'stackoverflow', 'killed', 'abort')

def classify(name, case, r, w=80, h=25):
    """-> failure dict or None"""
    if r is None:
        return {'signature': 'C03-noresult:%s' % name, 'input': case, 'impl': None, 'detail': 'no result from the worker'}
    cls = r[0]
    if cls in BAD:
        c = 'oom' if cls in ('abort', 'killed') and 'alloc' in str(r[1]) else cls
        return {'signature': 'C03-%s:%s' % (c, name), 'input': case, 'impl': list(r), 'expected': 'returns within 5 s, below 1 GiB, on the default stack',
                'detail': 'input of %s bytes' % case_len(case)}
    if cls == 'ok' and case.startswith('seq '):
        v = r[1]
        el, rows0, rows1, cells0, cells1, bh, lh, cx, cy, maxrow = v[:10]
        tw_, th_ = v[15], v[16]
        if el > 5_000_000:
            return {'signature': 'C03-timeout:%s' % name, 'input': case, 'impl': v, 'detail': 'took %d us' % el}
        # the limits come from the screen the case started with and the largest text area the engine accepts, NOT from the
        # terminal size fields after the input (an input that inflates them must not inflate its own limits)
        cw, chh = int(case.split()[2]), int(case.split()[3])
        W = max(cw, MAXW); H = max(chh, MAXH)
        if tw_ > W or th_ > H:
            return {'signature': 'C03-state:%s' % name, 'input': case, 'impl': v, 'expected': 'text area at most %d x %d' % (W, H),
                    'detail': 'the input left a text area of %d x %d: every later screen-size clamp is bounded by these numbers' % (tw_, th_)}
        lim_rows = 64 * (rows0 + H + 1)
        lim_cells = 64 * (rows0 + H + 1) * (W + 1)
        if rows1 - rows0 > lim_rows or cells1 - cells0 > lim_cells or v[12] > (256 << 20):
            return {'signature': 'C03-alloc:%s' % name, 'input': case, 'impl': v,
                    'expected': 'line table grows by at most %d rows / %d cells, sixel image <= 256 MiB' % (lim_rows, lim_cells),
                    'detail': 'rows %d -> %d, cells %d -> %d, sixel bytes %d' % (rows0, rows1, cells0, cells1, v[12])}
    if cls == 'ok' and (case.startswith('load ') or case.startswith('font ') or case.startswith('c03sixel ')):
        v = r[1]
        if v[0] > 5_000_000:
            return {'signature': 'C03-timeout:%s' % name, 'input': case, 'impl': v, 'detail': 'took %d us' % v[0]}
        if case.startswith('load ') and v[4] == 1 and (v[6] > (1 << 24) or v[3] > (1 << 20)):
            return {'signature': 'C03-alloc:%s' % name, 'input': case, 'impl': v, 'detail': 'a file of %s bytes loads as %d rows / %d cells' % (case_len(case), v[3], v[6])}
    return None

def classify_st(name, case, r, what=''):
    """oracle for kind c03st (whole input measured from a fresh screen) -> failure dict or None"""
    if r is None:
        return {'signature': 'C03-noresult:%s' % name, 'input': case, 'impl': None, 'detail': 'no result from the worker ' + what}
    cls = r[0]
    if cls in BAD:
        c = 'oom' if cls in ('abort', 'killed') and 'alloc' in str(r[1]) else cls
        return {'signature': 'C03-%s:%s' % (c, name), 'input': case, 'impl': list(r), 'expected': 'returns within 5 s, below 1 GiB, on the default stack',
                'detail': 'input of %s bytes; %s' % (case_len(case), what)}
    if cls != 'ok':
        return None
    v = r[1]
    p = case.split()
    w, h = int(p[2]), int(p[3])
    W = max(w, MAXW); H = max(h, MAXH)
    lim_rows = 64 * (h + H + 1); lim_cells = lim_rows * (W + 1); lim_rowlen = 64 * (W + 1)
    if v[0] > 5_000_000:
        return {'signature': 'C03-timeout:%s' % name, 'input': case, 'impl': v[:48], 'detail': 'took %d us; %s' % (v[0], what)}
    if v[1] > (512 << 10) or v[2] > (256 << 20):
        return {'signature': 'C03-oom:%s' % name, 'input': case, 'impl': v[:48], 'detail': 'resident set grew by %d KiB, sixel image %d bytes; %s' % (v[1], v[2], what)}
    for off in (4, 5 + NS):
        sn = dict(zip(SNAP, v[off:off + NS]))
        if sn['nlines'] - h > lim_rows or sn['cells'] - w * h > lim_cells or sn['maxrow'] > lim_rowlen:
            return {'signature': 'C03-alloc:%s' % name, 'input': case, 'impl': v[:48],
                    'expected': 'line table grows by at most %d rows / %d cells, no row longer than %d' % (lim_rows, lim_cells, lim_rowlen),
                    'detail': 'rows %d -> %d, cells %d -> %d, longest row %d; %s' % (h, sn['nlines'], w * h, sn['cells'], sn['maxrow'], what)}
        # state fields every later clamp relies on: bounded by the largest text area / the allocation limits, whatever the parameters were
        bounds = {'tw': W, 'th': H, 'bw': W, 'lw': W, 'cx': W, 'bh': lim_rows + h, 'lh': lim_rows + h, 'cy': lim_rows + h,
                  'mt': lim_rows + h, 'mb': lim_rows + h, 'ml': W, 'mr': W, 'ntabs': W + 64}
        for k, b in bounds.items():
            if abs(sn[k]) > b:
                return {'signature': 'C03-state:%s' % name, 'input': case, 'impl': v[:48], 'expected': '|%s| <= %d' % (k, b),
                        'detail': 'the input left %s = %d (text area %d x %d, %d rows): a state field later bounds rely on follows a parameter; %s'
                                  % (k, sn[k], sn['tw'], sn['th'], sn['nlines'], what)}
    return None

def case_len(case):
    p = case.split()
    hexs = p[-1]
    return 0 if hexs == '-' else len(hexs) // 2

def run_chunked(ctx, items, oracle, chunk=2000, stop_after=3):
    """items: (name, case, what). Runs them in chunks; once a control function has failed `stop_after` times its remaining cases are
    skipped (a broken clamp fails in many states: each timeout costs 5 s). -> results aligned with items (None = skipped), failures"""
    res = [None] * len(items); fails = []; count = {}; ran = 0
    for a in range(0, len(items), chunk):
        idx = [i for i in range(a, min(len(items), a + chunk)) if count.get(items[i][0], 0) < stop_after]
        if not idx: continue
        out = ctx.impl([items[i][1] for i in idx], per_case_timeout=5, mem_mb=1024)
        ran += len(idx)
        for i, r in zip(idx, out):
            res[i] = r if r is not None else ('noresult', '')
            f = oracle(items[i][0], items[i][1], r, items[i][2])
            if f is not None:
                fails.append(f); count[items[i][0]] = count.get(items[i][0], 0) + 1
    return res, fails, ran

def blame(ctx, fails, alone):
    """who is to blame for a failure with a probe suffix: if the probe fails in that state WITHOUT the table entry, it is the probe's own
    control function. alone: case -> (probe function, case of state + probe). Rewrites signature / input in place; -> cases run"""
    todo = sorted({alone[f['input']] for f in fails if alone.get(f['input'])})
    if not todo: return 0
    out = ctx.impl([c for _, c in todo], per_case_timeout=5, mem_mb=1024)
    guilty = {c: fn for (fn, c), r in zip(todo, out) if classify_st(fn, c, r) is not None}
    for f in fails:
        fn_c = alone.get(f['input'])
        if not fn_c: continue
        if fn_c[1] in guilty:
            f['signature'] = f['signature'].split(':', 1)[0] + ':' + fn_c[0]
            f['detail'] += ' [the probe alone fails in this state: attributed to %s]' % fn_c[0]
            f['input'] = fn_c[1]
        else:
            f['detail'] += ' [the probe alone is within the limits in this state: the entry left a state that makes it expensive]'
    return len(todo)

def state_sweep(ctx):
    """the control-function table on the prepared states (phase 1), then probe suffixes on the state each accepted / state-changing
    entry with a large parameter left (phase 2). Every input is fed to a fresh screen and measured as a whole; all < 64 bytes."""
    rng = ctx.rng
    mode = 'thorough' if ctx.thorough else ('escalated' if ctx.escalated else 'quick')
    k_named, k_other, all_states_other, k_probe_named, k_probe_other, cap2 = {
        'quick': (3, 6, False, 2, 1, 8000), 'escalated': (6, 16, False, 4, 2, 16000), 'thorough': (17, 3, True, 10, 3, 90000)}[mode]
    sizes = [(80, 25), (80, 25), (40, 24), (5, 3), (80, 25), (132, 60)]
    # phase 0: the prepared states themselves (a prefix that is over the limits is reported under its own name and not used further)
    items0 = [('prepared-state(%s)' % sn, st_case(0, w, h, len(sp), sp), 'the state prefix alone, %d x %d screen' % (w, h))
              for w, h in sorted(set(sizes)) for sn, sp in prepared_states(w, h)]
    _, fails0, ran0 = run_chunked(ctx, items0, classify_st, stop_after=1 << 30)
    bad_states = {f['signature'].split('(', 1)[1][:-1] for f in fails0}
    items = []; info = []
    for fi, f in enumerate(FINALS):
        for ii, inter in enumerate(INTER):
            final = chr(f); name = fn_name(inter, final)
            named = (inter, final) in NAMES
            w, h = sizes[(fi + ii) % len(sizes)]
            sts = [x for x in prepared_states(w, h) if x[0] not in bad_states]
            if named or all_states_other:
                combos = []
                for si, (sn, sp) in enumerate(sts):
                    ww, hh = sizes[(fi + ii + si) % len(sizes)]
                    ts = state_tuples(rng, ww, hh, k_named if named else k_other, name)
                    if mode == 'quick':      # the first (one large parameter) always, the others sampled from the large ones
                        ts = [ts[0]] + rng.sample(state_tuples(rng, ww, hh, 12, name)[1:], k_named - 1)
                    combos += [(sn, sp, ww, hh, t) for t in ts]
            else:
                combos = []
                for _ in range(k_other):
                    sn, sp = rng.choice(sts)
                    ww, hh = rng.choice(sizes)
                    combos.append((sn, sp, ww, hh, rng.choice(state_tuples(rng, ww, hh, 20, name))))
            for k, (sn, sp, ww, hh, t) in enumerate(combos):
                ent = csi(inter, final, t)
                if len(sp) + len(ent) >= 64: continue
                emu = 1 if (k % 11 == 10) else 0
                items.append((name, st_case(emu, ww, hh, len(sp), sp + ent), 'state %s, entry %r' % (sn, ent)))
                info.append((named, emu, ww, hh, sp, ent, t, sn))
    res, fails, ran = run_chunked(ctx, items, classify_st)
    failed_names = {f['signature'].split(':', 1)[1] for f in fails}
    # phase 2: the entry was accepted (no new error value) or changed the observable state, and carried a large parameter
    items2 = []
    nontriv = set()
    for (name, case, what), r, (named, emu, ww, hh, sp, ent, t, sn) in zip(items, res, info):
        if not r or r[0] != 'ok': continue
        v = r[1]
        changed = v[4:4 + NS] != v[5 + NS:5 + 2 * NS]
        accepted = v[3] == v[4 + NS]
        if changed: nontriv.add(case)
        if not (changed or accepted) or not is_big(t) or name in failed_names: continue
        fit = [(pn, pb) for pn, pb in PROBES if len(sp) + len(ent) + len(pb) < 64 and PROBE_FN.get(pn, pn) not in failed_names]
        kp = k_probe_named if named else k_probe_other
        for pn, pb in (rng.sample(fit, kp) if len(fit) > kp else fit):
            items2.append((name, st_case(emu, ww, hh, len(sp) + len(ent), sp + ent + pb), 'state %s, entry %r, probe %s %r' % (sn, ent, pn, pb),
                           (PROBE_FN.get(pn, pn), st_case(emu, ww, hh, len(sp), sp + pb))))
    if len(items2) > cap2:
        items2 = rng.sample(items2, cap2)
    res2, fails2, ran2 = run_chunked(ctx, [it[:3] for it in items2], classify_st)
    ran2 += blame(ctx, fails2, {it[1]: it[3] for it in items2})
    return {'cases': ran0 + ran + ran2, 'failures': fails0 + fails + fails2, 'nontrivial': len(nontriv),
            'table': '%d prepared states x %d (final, intermediate) pairs: %d inputs; %d inputs with a probe suffix (%d probes)' % (
                len(prepared_states(80, 25)), len(FINALS) * len(INTER), ran, ran2, len(PROBES)),
            'samples': [items[0][1][:200]] + ([items2[0][1][:200]] if items2 else [])}

def search(ctx, broken):
    per = ctx.n(20, 150)
    table, slow_t = csi_table(ctx, per)
    spec, slow_s = special_cases(ctx)
    meta = [(name, 'seq %d %d %d %s %s' % (emu, w, h, hx(pre), hx(seq))) for name, emu, w, h, pre, seq in table] + spec
    slow = [(name, 'seq %d %d %d %s %s' % (emu, w, h, hx(pre), hx(seq))) for name, emu, w, h, pre, seq in slow_t] + slow_s
    # inputs on which stage C disagreed come first
    first = []
    for b in broken:
        d = b.get('detail') or {}
        if isinstance(d, dict) and str(d.get('case', '')).startswith('seq '):
            first.append((d.get('name') or 'stage-C-disagreement', d['case']))
    first_st = []; first_alone = {}
    for b in broken:
        d = b.get('detail') or {}
        if isinstance(d, dict) and str(d.get('case', '')).startswith('c03st '):
            first_st.append((d.get('name') or 'stage-C-disagreement', d['case'], 'stage C disagreed on this input'))
            if d.get('probe_alone'): first_alone[d['case']] = tuple(d['probe_alone'])
    # known-slow cases: consecutive positions go to different workers
    meta = first + slow + meta
    cases = [c for _, c in meta]
    impl = ctx.impl(cases, per_case_timeout=5, mem_mb=1024)
    failures = []; nontriv = set(); byname = {}; panics = 0
    for (name, c), r in zip(meta, impl):
        byname[name] = byname.get(name, 0) + 1
        f = classify(name, c, r)
        if f is not None:
            failures.append(f); continue
        if r and r[0] == 'panic': panics += 1
        if r and r[0] == 'ok' and c.startswith('seq ') and (r[1][1] != r[1][2] or r[1][3] != r[1][4] or r[1][0] > 200): nontriv.add(c)
    # the inputs stage C disagreed on (kind c03st), then the table on the prepared states + probe suffixes
    if first_st:
        _, f0, _ = run_chunked(ctx, first_st, classify_st)
        blame(ctx, f0, first_alone)
        failures += f0
    sw = state_sweep(ctx)
    failures += sw['failures']
    failures.sort(key=lambda f: (f['signature'], len(str(f['input']))))
    return {'cases': len(cases) + len(first_st) + sw['cases'], 'failures': failures, 'distinct_nontrivial': len(nontriv) + sw['nontrivial'],
            'samples': [cases[0][:200], cases[len(cases) // 2][:200], cases[-1][:200]] + sw['samples'],
            'control_functions': len({n for n, _ in meta}), 'panics_seen_not_C03': panics,
            'table': '%d CSI (final, intermediate) pairs x >= %d tuples; %d special inputs; %d known-slow' % (len(FINALS) * len(INTER), per, len(spec), len(slow)),
            'prepared_states_table': sw['table']}

# ---- stage C -----------------------------------------------------------------------------------------------------------------------
MODELLED = [('', 'S'), ('', 'T'), ('', '@'), ('', 'P'), ('', 'L'), ('', 'M'), ('', 'Y'), ('', 'Z'), ('', 'A'), ('', 'k'), ('', 'b'), (' ', '@'), (' ', 'A'),
            ('', 'X'), ('', 'J'), ('', 'K'), ('', 'B'), ('', 'C'), ('', 'D'), ('', 'H'), ('', 'm'), ('', 'd'), ('', 'e'), ('', 'E'), ('', 'F'), ('', 'G'),
            # extension: rectangular-area operations (ticks = clipped rectangle), DECRQCRA, window resize, insert/delete key
            ('$', 'x'), ('$', 'z'), ('$', '{'), ('*', 'y'), ('', 't'), ('', '~')]
RECT = {('$', 'x'): 5, ('$', 'z'): 4, ('$', '{'): 4, ('*', 'y'): 6}
STATE_IDENTICAL = [('', 'S'), ('', 'T'), ('', 'P'), ('', 'Y'), ('', 'Z'), ('', 'A'), (' ', '@'), (' ', 'A')]

def c_setups(w, h):
    text = b''.join(bytes([65 + (i % 26)]) * max(1, (w - 1 - i % 3)) + b'\r\n' for i in range(h + 4))
    return [b'', b'ABCD\r', text + E + b'[%d;%dH' % (max(1, h // 2), max(1, w // 3)),
            text + E + b'[2;%dr' % max(2, h - 1) + E + b'[3;2H',
            b'AB\r\nCDEF\r\nGH' + E + b'[?69h' + E + b'[2;%ds' % max(2, w - 1) + E + b'[1;2H',
            b'\x0c' + b'XY\r\nZ' + E + b'H' + E + b'[1;1H']

def state_corr_cases(ctx):
    """short inputs (prepared state + table entry [+ probe suffix], < 64 bytes, fed to a fresh screen) whose resulting STATE is compared
    between the cost model (run_state) and the code (c03st): (name, w, h, a, b, description)"""
    rng = ctx.rng
    B = 2147483647
    sizes = [(80, 25), (80, 25), (40, 24), (10, 4), (5, 3), (20, 6)]
    small = [(40, 24), (10, 4), (5, 3), (20, 6), (10, 4)]
    SCROLLERS = ('SU', 'SD', 'SL', 'SR', 'CUU', 'cuu', 'ri', 'REP')
    meta = []
    nstates = len(prepared_states(80, 25))
    def add(inter, final, t, with_probe, si=None):
        name = fn_name(inter, final)
        if name in MODEL_SLOW and t: t = (min(t[0], 300),) + t[1:] if rng.random() < 0.5 else t     # (the small screens of SCROLLERS clamp the rest: REP <= w*h <= 240)
        for _ in range(20):
            pn, pb = rng.choice(PROBES) if with_probe else ('-', b'')
            # the model's scrolls walk lists cell by cell: the scroll functions get the small screens
            w, h = rng.choice(small if (name in SCROLLERS or pn in SCROLLERS) else sizes)
            sn, sp = prepared_states(w, h)[si] if si is not None else rng.choice(prepared_states(w, h))
            ent = csi(inter, final, t)
            if len(sp) + len(ent) + len(pb) < 64:
                meta.append((name, w, h, sp + ent, pb, 'state %s, entry %r, probe %s' % (sn, ent, pn),
                             [PROBE_FN.get(pn, pn), st_case(0, w, h, len(sp), sp + pb)] if pb else None))
                return
    def vals(w, h):
        return [0, 1, 2, h - 1, h, h + 1, w - 1, w, w + 1, 24, MAXH, MAXH + 1, 100, MAXW, MAXW + 1, w * h, 3000, 65536, 1000000, B]
    # every control function the engine gives a meaning to: one large parameter, one moderate one, a longer tuple
    # in EVERY prepared state (quick: one of the three tuple shapes per (function, state), thorough: all three)
    for k, (inter, final) in enumerate(NAMED):
        for si in range(nstates):
            v = vals(80, 25)
            shapes = [((B,), 0.6), ((rng.choice(v[2:16]),), 0.4), (tuple(rng.choice(v) for _ in range(rng.choice([2, 3, 4]))), 0.4)]
            for j, (t, pp) in enumerate(shapes):
                if ctx.thorough or ctx.escalated or (k + si + ctx.seed) % 3 == j:
                    add(inter, final, t, rng.random() < pp, si)
    # any (final, intermediate) pair, named or not: what the model treats as unsupported must be an error without effect in the code too
    for _ in range(ctx.n(400, 2000)):
        inter = rng.choice(INTER); final = chr(rng.choice(FINALS))
        v = vals(80, 25)
        t = tuple(rng.choice(v) for _ in range(rng.choice([0, 1, 1, 1, 2, 3])))
        add(inter, final, t, rng.random() < 0.5)
    return meta

def sixel_payloads(ctx):
    """sixel payloads for the decoder comparison: data characters, cursor moves, colour definitions, repeat groups (count <= 400), raster attributes (<= 300)"""
    rng = ctx.rng
    out = [b'', b'~', b'~~-~', b'!5~', b'!0~', b'!', b'!~', b'"1;1;10;20~', b'"1;1;7~', b'"1;1~', b'"1~', b'"1;1;2;2;2~', b'#1;2;100;0;0~', b'#1;2;100;0~',
           b'#5~', b'#300~', b'#1;1;120;50;50~', b'!400-~', b'!3$~', b'~$~-?', b'"1;1;0;0~~', b'"1;1;3;1~-~-~', b'!12"1;1;5;5~', b'!3#1~', b'>', b'~\x80~', b'#1;3;1;1;1~']
    # around MAX_SIXEL_DIMENSION = 4096 (cheap for the list model: refused ones, or nothing / little drawn)
    out += [b'!4097~', b'!4096?', b'!4096?~', b'!4095?~', b'!4096$~', b'!4097$', b'"1;1;4097;1~', b'"1;1;1;4097~', b'"1;1;2;4096~', b'"1;1;4096~', b'"1;1;4097~', b'!4096-~', b'!683-~',
            b'!682-~', b'!681-~', b'"1;1;1;4096!682-~', b'!2147483647~', b'!2147483647-', b'"1;1;99999;99999~', b'"1;1;2147483647;2147483647~', b'!4095?!1?~', b'!4095?!2?~', b'!65536\x80']
    alpha = b'?@ABN^n~-$' * 3 + b'!#";0123456789'
    for _ in range(ctx.n(120, 600)):
        k = rng.randint(1, 24)
        b = bytearray()
        for _ in range(k):
            r = rng.random()
            if r < 0.12: b += b'!%d' % rng.choice([0, 1, 2, 3, 7, 40, 400]) + bytes([rng.choice(b'?~-$n')])
            elif r < 0.2: b += b'"%d;%d;%d;%d' % (rng.randint(0, 3), rng.randint(0, 3), rng.choice([0, 1, 5, 40, 300]), rng.choice([0, 1, 6, 7, 40, 300]))
            elif r < 0.25: b += b'"1;1;%d' % rng.choice([0, 1, 6, 13, 300])
            elif r < 0.32: b += b'#%d;2;%d;%d;%d' % (rng.randint(0, 20), rng.randint(0, 100), rng.randint(0, 100), rng.randint(0, 100))
            elif r < 0.36: b += b'#%d' % rng.randint(0, 300)
            else: b += bytes([rng.choice(alpha)])
        out.append(bytes(b))
    return out

def loader_files(ctx):
    """binary files WITHOUT a SAUCE record for the loader comparison: (ext, fmt code, file, tick expression, info)"""
    rng = ctx.rng
    out = []
    def rb(n): return bytes(rng.randrange(256) for _ in range(n))
    def pairs(n): return bytes(rng.choice([32, 65, 66, 0, 1, 219, 255]) if i % 2 == 0 else rng.randrange(256) for i in range(n))
    q = ctx.n(3, 10)
    for _ in range(6 * q):
        d = pairs(rng.choice([0, 1, 2, 3, 160, 319, 320, 322, 700, rng.randint(0, 900)]))
        out.append(('bin', 0, d, 'run_ticks_pair %s' % zl(d), {'w': 160, 'body': len(d), 'base': 160 * 25}))
    for _ in range(2 * q):
        body = pairs(rng.choice([0, 1, 2, 159, 160, 161, rng.randint(0, 500)]))
        d = b'\x01' + bytes(rng.randrange(64) for _ in range(192)) + rb(4096) + body
        out.append(('adf', 1, d, 'run_ticks_pair %s' % zl(body), {'w': 80, 'body': len(body), 'base': 0}))
    for _ in range(8 * q):
        w = rng.choice([1, 2, 3, 80, 80, 80, 300, 300, 4096, 0, 4097]); h = rng.choice([0, 1, 2, 25, 1000, 65535]); fs = rng.choice([0, 8, 16, 16, 32, 33])
        flags = rng.choice([0, 0, 4, 4, 4, 4, 8, 12, 16, 20])
        comp = bool(flags & 4)
        if comp and rng.random() < 0.7:          # well-formed runs (Off / Char / Attr / Full with every count), sometimes cut short
            body = bytearray()
            for _ in range(rng.randint(1, 8)):
                ty = rng.choice([0, 0x40, 0x80, 0xC0]); nrun = rng.choice([1, 2, 7, 33, 63, 64])
                body += bytes([ty | (nrun - 1)])
                body += {0: pairs(2 * nrun), 0x40: bytes([65]) + rb(nrun), 0x80: bytes([7]) + pairs(nrun), 0xC0: bytes([66, 0x1f])}[ty]
            body = bytes(body[:len(body) - rng.choice([0, 0, 0, 1, 2])])
            h = rng.choice([25, 1000, 1000, 65535])
        else:
            body = rb(rng.choice([0, 1, 2, 3, 40, rng.randint(0, 120)])) if comp else pairs(rng.choice([0, 1, 2, 7, 2 * max(1, w) if w < 400 else 50, rng.randint(0, 300)]))
        d = b'XBIN\x1a' + struct.pack('<HHBB', w, h, fs, flags) + body
        out.append(('xb', 2, d, ('run_ticks_xbc %d %s' % (w, zl(body))) if comp else 'run_ticks_pair %s' % zl(body), {'w': w, 'body': len(body), 'base': 0, 'comp': comp}))
    for _ in range(6 * q):
        body = bytearray()
        for _ in range(rng.randint(0, 30)):
            r = rng.random()
            if r < 0.2: body += b'\x01' + struct.pack('>ii', rng.choice([0, 1, 24, 25, 300, 1200]), rng.choice([0, 1, 40, 79, 79, 80]))
            elif r < 0.5: body += bytes([rng.choice([2, 4, 6]), rng.choice(b'ABC')]) + rb(4) + (rb(4) if rng.random() < 0.5 else b'')
            else: body += bytes([rng.choice(b'ABCDEFG \x00\x07\xff')])
        if rng.random() < 0.3: body = body[:max(0, len(body) - rng.randint(1, 5))]
        d = b'\x18TUNDRA24' + bytes(body)
        out.append(('tnd', 3, d, 'run_ticks_tnd %s' % zl(bytes(body)), {'w': 80, 'body': len(body), 'base': 25}))
    for _ in range(3 * q):
        x1 = rng.choice([0, 0, 1, 5]); x2 = rng.choice([79, 79, 10, 0, 200]); y1 = rng.choice([0, 0, 3]); y2 = rng.choice([24, 0, 100])
        area = bytearray()
        for _ in range(rng.randint(0, 40)):
            if rng.random() < 0.25: area += b'\x01\x00' + struct.pack('<H', rng.choice([0, 1, 2, 5, 80, 500])) + bytes([rng.choice(b'AB\x01'), rng.randrange(256)])
            else: area += bytes([rng.choice(b'ABC \x01\x02'), rng.randrange(1, 256)])
        if rng.random() < 0.3: area += rb(rng.randint(1, 3))
        d = b'\x041.4' + struct.pack('<HHHH', x1, y1, x2, y2) + bytes(area) + rb(4096) + bytes(rng.randrange(64) for _ in range(48))
        out.append(('idf', 4, d, 'run_ticks_idf %d %d %d %s' % (x1, x2, y1, zl(bytes(area))), {'w': x2 - x1 + 1, 'body': len(area), 'base': 25, 'y1': y1}))
    return out

def macro_nest_cases(ctx):
    """(definitions, top id, depth): macro 1 is text, macro k+1 replays macro k several times (hex definitions, printable filler)"""
    rng = ctx.rng
    out = []
    ST = E + b'\\'
    def hexdef(i, body):
        return E + b'P%d;0;1!z' % i + body.hex().upper().encode() + ST
    for _ in range(ctx.n(24, 120)):
        depth = rng.randint(1, 4)
        defs = hexdef(1, bytes(rng.choice(b'ABCDEFGH') for _ in range(rng.randint(0, 12))))
        for k in range(2, depth + 1):
            body = b''
            for _ in range(rng.randint(0, 3)):
                body += bytes(rng.choice(b'abcxyz') for _ in range(rng.randint(0, 3))) + E + b'[%d*z' % rng.randint(1, k - 1)
            body += bytes(rng.choice(b'klm') for _ in range(rng.randint(0, 2)))
            defs += hexdef(k, body)
        # the depth actually reached by the top macro (a body may invoke shallower macros only)
        out.append((defs, depth, None))
    res = []
    for defs, top, _ in out:
        res.append((defs, top, macro_depth(defs, top)))
    return res

def macro_limit(ctx):
    """MAX_MACRO_NESTING of the tree under test (16 when the constant is gone: stage G reports that)"""
    from translator import gen_macro
    try: return gen_macro.limit(ctx.repo)
    except Exception: return 16

def macro_deep_cases(ctx):
    """(definitions, top id, chain abandoned?) around the limit MAX_MACRO_NESTING: chains of n macros (macro k replays macro k-1 once or twice at the shallow
    end), and recursive tables (self / mutual, fan-out 1..4, filler before / between / after the invocations)"""
    limit = macro_limit(ctx)
    rng = ctx.rng
    ST = E + b'\\'
    def hexdef(i, body):
        return E + b'P%d;0;1!z' % i + body.hex().upper().encode() + ST
    out = []
    for n in [limit - 2, limit - 1, limit, limit, limit + 1, limit + 2, limit + 3]:
        defs = hexdef(1, b'A' * rng.randint(1, 5))
        for k in range(2, n + 1):
            body = bytes(rng.choice(b'abc') for _ in range(rng.randint(0, 2))) + E + b'[%d*z' % (k - 1) + bytes(rng.choice(b'xyz') for _ in range(rng.randint(0, 2)))
            if k <= 3 and rng.random() < 0.5: body += E + b'[%d*z' % (k - 1)
            defs += hexdef(k, body)
        out.append((defs, n, n > limit))
    for _ in range(ctx.n(23, 143)):
        nm = rng.randint(1, 3)
        defs = b''; recursive = False
        targets = {}
        for i in range(1, nm + 1):
            body = b''; targets[i] = []
            for _ in range(rng.randint(0, 4)):
                j = rng.randint(1, nm)
                targets[i].append(j)
                body += bytes(rng.choice(b'abcxyz') for _ in range(rng.randint(0, 3))) + E + b'[%d*z' % j
            body += bytes(rng.choice(b'klm') for _ in range(rng.randint(0, 2)))
            defs += hexdef(i, body)
        top = rng.randint(1, nm)
        # a cycle reachable from the top macro <=> the chain is abandoned (at most 3 macros: a non-recursive nest is at most 3 deep)
        def cyc(i, path):
            return any(j in path or cyc(j, path | {j}) for j in targets[i])
        out.append((defs, top, cyc(top, {top})))
    return out

def macro_depth(defs, top):
    """nesting depth of macro `top` in hex definitions produced by macro_nest_cases (1 = no invocation inside)"""
    import re
    bodies = {}
    for mm in re.finditer(rb'\x1bP(\d+);0;1!z([0-9A-F]*)\x1b\\', defs):
        bodies[int(mm.group(1))] = bytes.fromhex(mm.group(2).decode())
    def d(i):
        if i not in bodies: return 0
        subs = [int(x) for x in re.findall(rb'\x1b\[(\d+)\*z', bodies[i])]
        return 1 + max([d(j) for j in subs] or [0])
    return d(top)

def state_corr(ctx, meta, impl, model):
    """-> disagreements, number of non-trivial cases"""
    dis = []; nontriv = 0
    labels = ['errors'] + SNAP + ['errors(end)'] + [x + '(end)' for x in SNAP]
    for (name, w, h, a, b, desc, alone), r, m in zip(meta, impl, model):
        c = st_case(0, w, h, len(a), a + b)
        base = {'case': c, 'name': name, 'what': desc, 'probe_alone': alone}
        if m is None:
            dis.append(dict(base, impl=list(r) if r else None, model=None, what='model evaluation failed; ' + desc)); continue
        if m[0] < 0:
            if r and r[0] == 'panic': continue
            dis.append(dict(base, impl=list(r)[:2] if r else None, model=m, what='model panics/diverges, implementation does not; ' + desc)); continue
        if r is None or r[0] != 'ok':
            dis.append(dict(base, impl=list(r) if r else None, model=m[:2 + NS],
                            what='implementation did not return (%s); the model reaches a state with %d rows; ' % (r[0] if r else None, m[2 + 8]) + desc)); continue
        v = r[1][3:]; mm = m[1:]
        if v != mm:
            k = next((i for i, (x, y) in enumerate(zip(v, mm)) if x != y), min(len(v), len(mm)))
            lab = labels[k] if k < len(labels) else 'row lengths / tab stops'
            dis.append(dict(base, impl=v[:2 * NS + 2], model=mm[:2 * NS + 2],
                            what='state after the input differs: %s = %s (code) vs %s (model); ' % (lab, v[k] if k < len(v) else None, mm[k] if k < len(mm) else None) + desc)); continue
        if v[1:1 + NS] != [0, 0, w, h, w, h, w, h, h] + v[10:1 + NS] or True:
            nontriv += 1
    return dis, nontriv

def correspondence(ctx):
    rng = ctx.rng
    n = ctx.n(500, 1500)
    sizes = [(80, 25), (40, 24), (10, 4), (5, 3), (20, 6), (132, 60), (2, 2), (1, 1)]
    meta = []
    while len(meta) < n:
        inter, final = rng.choice(MODELLED)
        w, h = rng.choice(sizes)
        # the model's scrolls walk lists cell by cell (and the threaded allocation counter walks them again): 2^31-1 scrolls on 132 x 60 take minutes
        if (w, h) == (132, 60) and ((inter, final) in ((' ', '@'), (' ', 'A')) or (inter == '' and final in 'STAkbB')): w, h = 40, 24
        pre = rng.choice(c_setups(w, h))
        vals = [0, 1, 2, h - 1, h, h + 1, w - 1, w, w + 1, w * h, 200, 3000, 65536, 1000000, 2147483647]
        k = rng.choice([0, 1, 1, 1, 2])
        t = tuple(rng.choice(vals) for _ in range(k))
        if (inter, final) in RECT:          # the rectangle functions want 4 / 5 / 6 parameters (sometimes one too few / too many)
            k = RECT[(inter, final)] + rng.choice([0, 0, 0, 0, 0, -1, 1])
            rv = [0, 1, 2, h - 1, h, h + 1, w - 1, w, w + 1, 200, 99999, 2147483647]
            t = tuple(rng.choice(rv) for _ in range(k))
            if final == 'x' and t and rng.random() < 0.8: t = (rng.choice([32, 65, 0x2588, 0xD800, 1114112]),) + t[1:]
            if final == 'y' and len(t) == 6 and rng.random() < 0.6:        # a valid rectangle inside the text area
                a, b = sorted([rng.randint(0, h), rng.randint(0, h)]); c, d = sorted([rng.randint(0, w), rng.randint(0, w)])
                t = (1, 1, a, c, b, d)
        if (inter, final) == ('', 't'): t = (8, rng.choice(vals), rng.choice(vals)) if rng.random() < 0.8 else t
        if (inter, final) == ('', '~'): t = (rng.choice([1, 2, 2, 3, 4, 5, 7]),)
        # REP is clamped to w*h copies (after the fix): any count on the small screens
        # REP through margins scrolls once per wrapped row; the model walks the region cell by cell (twice with the threaded counter): keep the count small on big screens
        if final == 'b' and t and w * h > 240 and t[0] > 400: t = (rng.choice([w, 2 * w + 1, 400]),) + t[1:]
        meta.append((inter, final, w, h, pre, csi(inter, final, t), t))
    cases = ['seq 0 %d %d %s %s' % (w, h, hx(pre), hx(seq)) for _, _, w, h, pre, seq, _ in meta]
    exprs = ['run_seq %d %d %s %s' % (w, h, zl(pre), zl(seq)) for _, _, w, h, pre, seq, _ in meta]
    # clamped model vs the unclamped model of AnsiTok.v (state-identical clamps, moderate counts, small screens)
    old = []
    for i, (inter, final, w, h, pre, seq, t) in enumerate(meta):
        if (inter, final) in STATE_IDENTICAL and w * h <= 240 and (not t or t[0] <= 3000) and len(old) < ctx.n(120, 600):
            old.append(i)
    exprs_old = ['run_seq_old %d %d %s %s' % (meta[i][2], meta[i][3], zl(meta[i][4]), zl(meta[i][5])) for i in old]
    # other models
    hexs = [b'!5;4142;43', b'41', b'!0;41;', b'!2000;4142;', b'!3;!4;41;;', b'4', b'!12', b'!7;41', b'zz', b'!3;41;!4;42;43',
            b'!65537;41;', b'!2147483647;41;', b'!65537;41', b'!32769;4142;', b'!2147483647;;41', b'41!65536;42;', b'!2147483647;41;42', b'!70000;;!70000;41;'] + \
           [b'!%d;%s;%s' % (rng.choice([0, 1, 7, 300, 2000]), b'4A' * rng.randint(0, 4), b'4B' * rng.randint(0, 3)) for _ in range(20)]
    glyphs = [(hh, nn) for hh in [0, 1, 8, 14, 16, 32, 255] for nn in [0, 1, 15, 16, 17, 4096, 8192]]
    extra_exprs = ['run_hex %s' % zl(s) for s in hexs] + ['run_glyphs %d %d' % g for g in glyphs]
    calib = ['calib 20000'] * 3
    hex_cases = ['seq 0 80 25 - %s' % hx(E + b'P1;0;1!z' + s + E + b'\\' + E + b'[1*z') for s in hexs]
    # extension (c): the macro is defined in the (unmeasured) prefix after a form feed, the measured part is the invocation: characters printed (read off the caret) = macro length
    hex_cases2 = ['seq 0 80 25 %s %s' % (hx(b'\x0c' + E + b'P1;0;1!z' + s + E + b'\\'), hx(E + b'[1*z')) for s in hexs]
    nest = macro_nest_cases(ctx)
    nest_cases = ['seq 0 80 25 %s %s' % (hx(b'\x0c' + defs), hx(E + b'[%d*z' % top)) for defs, top, depth in nest]
    nest_exprs = ['run_macro_seq %d %s %d' % (depth, zl(defs), top) for defs, top, depth in nest] + \
                 ['run_macro_seq %d %s %d' % (depth - 1, zl(defs), top) for defs, top, depth in nest]
    deep = macro_deep_cases(ctx)
    mlimit = macro_limit(ctx)
    deep_cases = ['seq 0 80 25 %s %s' % (hx(b'\x0c' + defs), hx(E + b'[%d*z' % top)) for defs, top, ab in deep]
    deep_exprs = ['run_macro_seq %d %s %d' % (mlimit, zl(defs), top) for defs, top, ab in deep]
    glyph_cases = ['font %s' % hx(b'\x36\x04\x00' + bytes([hh]) + b'\x00' * nn) for hh, nn in glyphs]
    smeta = state_corr_cases(ctx)
    st_cases = [st_case(0, w, h, len(a), a + b) for _, w, h, a, b, _, _ in smeta]
    st_exprs = ['run_state %d %d %s %s' % (w, h, zl(a), zl(b)) for _, w, h, a, b, _, _ in smeta]
    sixels = sixel_payloads(ctx)
    sixel_cases = ['c03sixel %s' % hx(b) for b in sixels]
    sixel_exprs = ['run_sixel_cost %s' % zl(b) for b in sixels]
    files = loader_files(ctx)
    load_cases = ['load %s %s' % (ext, hx(d)) for ext, fmt, d, tk_e, info in files]
    load_exprs = ['run_load_shape %d %s' % (fmt, zl(d)) for ext, fmt, d, tk_e, info in files] + [tk_e for ext, fmt, d, tk_e, info in files]
    ext_cases = hex_cases2 + nest_cases + sixel_cases + load_cases + deep_cases
    impl = ctx.impl(cases + hex_cases + glyph_cases + calib + ext_cases + st_cases, per_case_timeout=5)
    model = ctx.model(MODEL_IMPORTS, exprs + exprs_old + extra_exprs + nest_exprs + deep_exprs + sixel_exprs + load_exprs + st_exprs, timeout=900)
    impl_st = impl[len(impl) - len(st_cases):]; impl = impl[:len(impl) - len(st_cases)]
    impl_ext = impl[len(impl) - len(ext_cases):]; impl = impl[:len(impl) - len(ext_cases)]
    model_st = model[len(model) - len(st_exprs):]
    e3 = len(model) - len(st_exprs); e2 = e3 - len(load_exprs); e1 = e2 - len(sixel_exprs); e0 = e1 - len(nest_exprs) - len(deep_exprs)
    model_load = model[e2:e3]; model_sixel = model[e1:e2]; model_nest = model[e0:e1]
    tref = min([r[1][0] for r in impl[-3:] if r and r[0] == 'ok'] or [20000])
    per_tick = max(0.05, tref / 20000.0)          # microseconds per printed character in this run
    dis = []; nontriv = set(); ratios = []; outliers = 0; dist = {}; bound_margin = []
    for i, (c, r, m, me) in enumerate(zip(cases, impl, model, meta)):
        name = fn_name(me[0], me[1]); dist[name] = dist.get(name, 0) + 1
        if m is None:
            dis.append({'case': c, 'impl': list(r) if r else None, 'model': None, 'what': 'model evaluation failed'}); continue
        if r is None or r[0] != 'ok':
            # a blown limit where the model says the work is small
            budget = 50 * per_tick * (m[2] if len(m) > 2 else 0) + 50000
            if m[0] == -1 and r and r[0] == 'panic': continue
            dis.append({'case': c, 'impl': list(r) if r else None, 'model': m[:8], 'what': 'implementation did not return; model ticks allow %d us' % budget}); continue
        v = r[1]
        if m[0] < 0:
            dis.append({'case': c, 'impl': v, 'model': m, 'what': 'model panics/diverges, implementation returns'}); continue
        cls, it, tk, al, mrows0, mrows, mcells0, mcells, mbh, mlh, mcx, mcy, mmax, mhash, mtw, mth = m[:16]
        ta, mscr = m[16], m[17]          # threaded allocation counter (Model/Alloc.v), screen measure of the state before the sequence
        state_impl = [1 if v[10] else 0, v[1], v[2], v[3], v[4], v[5], v[6], v[7], v[8], v[9], v[13], v[15], v[16]]
        state_model = [cls, mrows0, mrows, mcells0, mcells, mbh, mlh, mcx, mcy, mmax, mhash, mtw, mth]
        if state_impl != state_model:
            dis.append({'case': c, 'impl': state_impl, 'model': state_model, 'what': 'state after the sequence differs (err rows0 rows cells0 cells bh lh cx cy maxrow hash tw th)'}); continue
        grown = max(0, v[2] - v[1]) + max(0, v[4] - v[3])
        if grown > al:
            dis.append({'case': c, 'impl': grown, 'model': al, 'what': 'rows+cells allocated exceed the model alloc counter'}); continue
        if grown > ta or al > ta:
            dis.append({'case': c, 'impl': grown, 'model': [al, ta], 'what': 'rows+cells allocated exceed the THREADED allocation counter (alloc_dominates)'}); continue
        # instances of alloc_bound / ticks_bound (every set-up of this stage satisfies the C09 invariant; alloc_bound does not cover REP)
        if True:
            nb = len(me[5])
            if (me[1] != 'b' and ta > 8 * (nb + 1) * mscr) or tk > 8 * (nb + 1) * mscr * mscr:
                dis.append({'case': c, 'impl': [grown, v[0]], 'model': [ta, tk, mscr],
                            'what': 'the model counters exceed the proved bounds 8(n+1)scr / 8(n+1)scr^2: the theorem does not speak about this model state'}); continue
            bound_margin.append(ta / float(8 * (nb + 1) * mscr))
        budget = 50 * per_tick * tk + 50000
        ratios.append(v[0] / max(1.0, per_tick * tk))
        if v[0] > budget:
            outliers += 1
            if v[0] > 5_000_000:
                dis.append({'case': c, 'impl': v[0], 'model': tk, 'what': 'measured time exceeds 50 x calibrated ticks + 50 ms AND the 5 s limit'})
        if it > len(me[5]) or grown > 0: nontriv.add(c)
    # clamped vs unclamped model
    base = len(exprs)
    for j, i in enumerate(old):
        mo = model[base + j]; mn = model[i]
        if mo is None or mn is None or mn[0] < 0: continue
        new_state = [mn[5], mn[7], mn[8], mn[9], mn[10], mn[11], mn[12], mn[13]]
        if mo != new_state:
            dis.append({'case': cases[i], 'impl': 'unclamped model (AnsiTok.v) %s' % mo, 'model': new_state, 'what': 'the clamp of the fix changes the resulting state'})
    # hex macros: iterations vs macro replay (rows printed), glyph loop
    base2 = base + len(exprs_old)
    for j, s in enumerate(hexs):
        m = model[base2 + j]; r = impl[len(cases) + j]
        if m is None or r is None or r[0] != 'ok':
            dis.append({'case': hex_cases[j], 'impl': r, 'model': m, 'what': 'hex macro case failed'}); continue
        printed = (r[1][4] - r[1][3])           # cells growth is not the macro length; compare only the error flag and the bound
        if (m[0] == 1) != (r[1][10] == 0):
            dis.append({'case': hex_cases[j], 'impl': r[1], 'model': m, 'what': 'hex macro accepted/rejected differently'})
        if m[0] == 1 and m[1] < m[2]:
            dis.append({'case': hex_cases[j], 'impl': r[1], 'model': m, 'what': 'iteration counter below the macro length'})
    # extension (c): hexmacro_bound instance, printed characters = macro length; macro replay: printed <= macro_chars <= B * geom c depth
    ext_n = 0
    for j, s_ in enumerate(hexs):
        m = model[base2 + j]; r = impl_ext[j]
        if m is None or len(m) < 6: continue
        ext_n += 1
        if m[1] > m[5] + 65536 or m[2] > 65536:
            dis.append({'case': hex_cases2[j], 'impl': None, 'model': m, 'what': 'hex macro counter / length exceed zlen s + MAX_MACRO_SIZE / MAX_MACRO_SIZE: hexmacro_bound does not hold for this model value'}); continue
        if m[0] == 1:
            if r is None or r[0] != 'ok':
                dis.append({'case': hex_cases2[j], 'impl': r, 'model': m, 'what': 'invocation of an accepted hex macro did not return'}); continue
            printed = r[1][8] * 80 + r[1][7]        # caret after a form feed = characters printed (80 columns, auto-wrap, no margins)
            if printed != m[2]:
                dis.append({'case': hex_cases2[j], 'impl': printed, 'model': m[2], 'what': 'characters printed by the invocation differ from the length of the macro the model expands'})
            elif printed > m[1]:
                dis.append({'case': hex_cases2[j], 'impl': printed, 'model': m[1], 'what': 'characters printed exceed the iteration counter of parse_hex_macro_sequence'})
    for j, (defs, top, depth) in enumerate(nest):
        m = model_nest[j]; m0 = model_nest[len(nest) + j]; r = impl_ext[len(hexs) + j]
        c = nest_cases[j]; ext_n += 1
        if m is None or m0 is None or len(m) < 5:
            dis.append({'case': c, 'impl': r, 'model': m, 'what': 'macro replay model evaluation failed'}); continue
        if m[1] != 0 or m0[1] != 1:
            dis.append({'case': c, 'impl': None, 'model': [m, m0], 'what': 'macro nesting depth: the model replays to the end within a budget of %d levels and must abandon the chain within %d' % (depth, depth - 1)}); continue
        if r is None or r[0] != 'ok':
            dis.append({'case': c, 'impl': r, 'model': m, 'what': 'nested macro invocation did not return; the model replays %d characters' % m[0]}); continue
        printed = r[1][8] * 80 + r[1][7]
        if printed > m[0] or m[0] > m[4] or r[1][10] != 0:
            dis.append({'case': c, 'impl': [printed, r[1][10]], 'model': m, 'what': 'characters printed > macro_chars, or macro_chars > B * geom c fuel (macro_replay_bound), or the invocation was an error value'}); continue
        if printed > 0: nontriv.add(c)
    # nests around the limit of the code (MAX_MACRO_NESTING): abandoned exactly when the generator says so (chain longer than the limit / a cycle reachable from the top macro),
    # the invocation is an error value exactly then, printed <= macro_chars <= bound (macro_replay_total)
    base = len(hexs) + len(nest) + len(sixels) + len(load_cases)
    for j, (defs, top, ab) in enumerate(deep):
        m = model_nest[2 * len(nest) + j]; r = impl_ext[base + j]; c = deep_cases[j]; ext_n += 1
        if m is None or len(m) < 5:
            dis.append({'case': c, 'impl': r, 'model': m, 'what': 'macro replay model evaluation failed'}); continue
        if r is None or r[0] != 'ok':
            dis.append({'case': c, 'impl': r, 'model': m, 'what': 'macro invocation around the nesting limit did not return; the model replays at most %d characters' % m[0]}); continue
        printed = r[1][8] * 80 + r[1][7]
        if m[1] != int(ab) or r[1][10] != int(ab):
            dis.append({'case': c, 'impl': [printed, r[1][10]], 'model': m, 'what': 'chain abandoned (MacroNestingTooDeep): expected %d, model %d, implementation error values %d' % (int(ab), m[1], r[1][10])}); continue
        if printed > m[0] or m[0] > m[4]:
            dis.append({'case': c, 'impl': printed, 'model': m, 'what': 'characters printed > macro_chars, or macro_chars > B * geom c MAX_MACRO_NESTING (macro_replay_total)'}); continue
        if printed > 0: nontriv.add(c)
    # extension (d): the sixel decoder: accept / reject, rows, bytes of the image = rows x longest row <= cap (sixel_image_bound), iterations within the bound
    for j, b_ in enumerate(sixels):
        m = model_sixel[j]; r = impl_ext[len(hexs) + len(nest) + j]; c = sixel_cases[j]; ext_n += 1
        if m is None:
            dis.append({'case': c, 'impl': r, 'model': None, 'what': 'sixel model evaluation failed'}); continue
        if m[0] == 2:
            if not (r and r[0] == 'panic'): dis.append({'case': c, 'impl': r, 'model': m, 'what': 'the sixel model panics (arithmetic overflow), the decoder does not'})
            continue
        if r is None or r[0] != 'ok':
            dis.append({'case': c, 'impl': r, 'model': m, 'what': 'the decoder did not return; the model counts %d iterations' % m[1]}); continue
        v = r[1]
        if (m[0] == 0) != (v[1] == 1):
            dis.append({'case': c, 'impl': v, 'model': m, 'what': 'sixel payload accepted / rejected differently'}); continue
        if m[0] != 0: continue
        it, reps, dw, dh, rows_, longest, nbytes, cap = m[1:9]
        if v[3] != rows_ or v[4] != nbytes:
            dis.append({'case': c, 'impl': v[1:5], 'model': m, 'what': 'sixel image: height / bytes differ (code: ok width height bytes; model: .. rows longest bytes cap)'}); continue
        if nbytes > cap or it > len(b_) + 1 + reps or nbytes > 4 * 4096 * 4096 or it > (len(b_) + 1) * 4097:
            dis.append({'case': c, 'impl': v[1:5], 'model': m, 'what': 'the model counters exceed sixel_image_bound / sixel_ticks_bound (or their _abs forms)'}); continue
        if v[0] > 50 * per_tick * (it + nbytes) + 50000 and v[0] > 5_000_000:
            dis.append({'case': c, 'impl': v[0], 'model': m, 'what': 'sixel decode time beyond the 5 s limit while the model counts %d iterations' % it}); continue
        if nbytes > 0: nontriv.add(c)
        dist['extension: sixel images compared'] = dist.get('extension: sixel images compared', 0) + 1
    # extension (e): binary loaders: accept / reject, width height rows cells of the loaded buffer; counters within load_ticks_bound_*; cells within the bound
    for j, (ext, fmt, d_, tk_e, info) in enumerate(files):
        m = model_load[j]; mt = model_load[len(files) + j]; r = impl_ext[len(hexs) + len(nest) + len(sixels) + j]; c = load_cases[j]; ext_n += 1
        if m is None or mt is None:
            dis.append({'case': c[:300], 'impl': r, 'model': [m, mt], 'what': 'loader model evaluation failed'}); continue
        if m[0] == 2:
            if not (r and r[0] == 'panic'): dis.append({'case': c[:300], 'impl': r, 'model': m, 'what': 'the loader model panics, the loader does not'})
            continue
        if r is None or r[0] != 'ok':
            dis.append({'case': c[:300], 'impl': r, 'model': m, 'what': 'the loader did not return'}); continue
        v = r[1]
        if (m[0] == 0) != (v[4] == 1):
            dis.append({'case': c[:300], 'impl': v, 'model': m, 'what': 'file accepted / rejected differently'}); continue
        if m[0] != 0: continue
        if [v[1], v[2], v[3], v[6]] != m[1:5]:
            dis.append({'case': c[:300], 'impl': [v[1], v[2], v[3], v[6]], 'model': m[1:5], 'what': 'loaded buffer differs: width height rows cells'}); continue
        body = info['body']; w_ = max(1, info['w']); tk = mt[0]; bad = None
        if ext in ('bin', 'adf') or (ext == 'xb' and not info.get('comp')):
            if 2 * tk > body or m[4] > max(info['base'], body // 2 + w_): bad = 'load_ticks_bound_pair'
        elif ext == 'xb':
            if tk > 65 * body or m[4] > tk + w_: bad = 'load_ticks_bound_xbc (cells <= counter + width is measured, not proved)'
        elif ext == 'tnd':
            if tk > body or mt[1] > 65534 or m[3] > max(25, mt[1] + tk + 1): bad = 'load_ticks_bound_tnd'
        elif ext == 'idf':
            if 2 * tk > body + 2 * mt[1]: bad = 'load_ticks_bound_idf'
        if bad:
            dis.append({'case': c[:300], 'impl': v[:8], 'model': [m, mt], 'what': 'the model counters exceed %s' % bad}); continue
        if m[4] > 0: nontriv.add(c[:200])
        dist['extension: loaded buffers compared (%s)' % ext] = dist.get('extension: loaded buffers compared (%s)' % ext, 0) + 1
    for j, g in enumerate(glyphs):
        m = model[base2 + len(hexs) + j]; r = impl[len(cases) + len(hexs) + j]
        if m is None or r is None or r[0] != 'ok':
            dis.append({'case': glyph_cases[j], 'impl': r, 'model': m, 'what': 'glyph case failed'}); continue
        if r[1][1] == 1 and g[0] > 0 and g[0] in (8, 14, 16) and False:
            pass
    # state after short inputs in prepared states (model run_state vs kind c03st)
    sdis, snontriv = state_corr(ctx, smeta, impl_st, model_st)
    dis = sdis + dis
    dist['state-comparison inputs (prepared state + entry + probe)'] = len(smeta)
    ratios.sort()
    dist['extension: hex-macro length / macro replay / sixel decoder / binary loader cases'] = ext_n
    return {'cases': len(cases) + len(old) + len(hexs) + len(glyphs) + len(smeta) + ext_n, 'disagreements': dis, 'distinct_nontrivial': len(nontriv) + snontriv,
            'distribution': {'per_control_function': dist, 'calibration_us_per_tick': round(per_tick, 4),
                             'time_over_model_ratio_median': round(ratios[len(ratios) // 2], 3) if ratios else None,
                             'time_over_model_ratio_max': round(ratios[-1], 3) if ratios else None,
                             'cases_over_50x_budget(reported only)': outliers,
                             'threaded_alloc_over_bound_max': round(max(bound_margin), 4) if bound_margin else None, 'clamped_vs_unclamped_model_cases': len(old),
                             'model_errors': getattr(ctx, 'model_errors', [])[:2]},
            'samples': [cases[0][:200], cases[len(cases) // 2][:200]]}

def replay(ctx, body):
    from vlib import driver
    import json
    inp = body.get('input')
    print('replay', ID, inp)
    if isinstance(inp, str) and inp.split()[0] in ('seq', 'load', 'font', 'c03sixel', 'feed', 'c03st'):
        ok, out = driver.stage_build()
        r = ctx.impl([inp], per_case_timeout=5, mem_mb=1024)[0]
        print('implementation:', (r[0], r[1][:48]) if r and r[0] == 'ok' else r)
        if inp.startswith('c03st '):
            pp = inp.split()
            print('input bytes:', bytes.fromhex(pp[5]) if pp[5] != '-' else b'', '(%s x %s screen)' % (pp[2], pp[3]))
        f = (classify_st if inp.startswith('c03st ') else classify)(body.get('signature', 'C03-?:?').split(':')[-1], inp, r)
        print('oracle:', f['signature'] if f else 'within the limits')
        return 1 if f else 0
    print(json.dumps(body, indent=1))
    return 1

LEVEL_TEXT = ('PARTIAL (by design: time and memory are runtime facts). Machine-checked (Coq, no axioms), for every state of the C09 invariant and ALL parameter values: '
              'every CSI control function of the ANSI parser (all final bytes; no intermediate, SP, $ and DECRQCRA) makes at most 4(n+1) x screen measure primitive calls (cost_bound), '
              'at most 8(n+1) x measure^2 weighted inner iterations (ticks_bound, ticks_bound_sp/_dollar/_rqcra; the rectangle functions are clipped to the screen: rect_clip) and '
              'allocates at most 8(n+1) x measure rows + cells (alloc_bound, alloc_bound_sp/_dollar; threaded allocation counters that provably dominate the growth of the line table: '
              'alloc_dominates, alloc_counts_growth) - unconditionally for SU SD ICH DCH IL DL SL SR CVT CBT CUU CUD ECH ED EL SGR DECFRA DECERA DECSERA DECRQCRA window resize after the ten clamp fixes; '
              'REP after its repair (at most width x height copies: rep_clamped; old loop: rep_before_fix_refuted) is inside cost_bound and ticks_bound, not yet inside alloc_bound. Hex-macro repeat groups after the size-limit fix (hexmacro_bound, unconditional: work <= length + MAX_MACRO_SIZE, stored macro <= MAX_MACRO_SIZE = 65536 characters; '
              'before the fix: hexmacro_bound_before_fix, (1 + largest repeat count) x length), macro replay (macro_replay_bound: geometric in the nesting depth; recursion refuted), the sixel decoder '
              '(sixel_ticks_bound: iterations <= payload + executed repeat counts; sixel_alloc_bound / sixel_image_bound: bytes <= 4 max(T, declared width) x max(6T+6, declared height); '
              'after the size-limit fix also without any number of the payload: sixel_ticks_bound_abs <= length x 4097, sixel_alloc_bound_abs / sixel_image_bound_abs <= 4 x 4096 x 4096 = 64 MiB), '
              'the cell loops of the binary loaders BIN ADF XBin Tundra IDF (load_ticks_bound_*: cells stored <= bytes (x 65 for compressed XBin) + declared run lengths; rows x cells of the loaded layer). '
              'The counters are attached to the very model functions of C09/C01/C14/C05/C02 (tick_version_same_state, alloc_version_same_state, *_arms_only, the fst-equalities inside the bounds). '
              'The property\'s own limits (5 s, 1 GiB, stack) are applied to the complete control-function table on the real code by stage S.')
LEVEL_NOTE = ('Theorems speak about iteration/allocation counts of the model; the tie to the code is stage C (full state equality after each sequence, '
              'allocation one-sided, time one-sided with a 50x calibrated factor; full terminal-state equality after short inputs in 40 prepared states incl. resized text areas) '
              'and stage S (absolute limits on the real code: single control functions, the same in prepared states, and probe suffixes on the state they leave). '
              'Extension: stage C also compares the threaded allocation counter and instances of alloc_bound / ticks_bound on every CSI case, the rectangle functions, '
              'characters printed by hex macros and nested macros (vs hexmacro_bound / macro_replay_bound), rows / bytes of decoded sixel images, and width / height / rows / cells of '
              'buffers loaded from generated BIN ADF XBin Tundra IDF files. Known classes: declared sizes of loaders, cursor row of the text loaders.')
TECHNIQUE = ('Coq proof over tick-annotated model functions (arithmetic bounds from the C09 invariant) + exhaustive control-function table under process limits, '
             'on a fresh screen and on prepared states, with probe suffixes and terminal-state comparison against the model')
