"""C08 case generators (documents, operation alphabet, histories). Used by props/c08.py.

A case is one text line for the harness (harness/src/c08.rs): document spec, `|`, operations separated by `;`."""

BUFS = [(12, 8), (12, 8), (12, 8), (6, 4), (20, 10), (80, 25)]
FLAGS = [1, 1, 1, 17, 17, 25, 9, 3, 19, 0, 16, 5, 21, 27]      # 1 visible 2 locked 4 pos-locked 8 alpha-locked 16 has-alpha

CELLS = [(65, 7, 0, 0), (66, 14, 1, 0), (81, 7, 0, 0), (112, 2, 0, 0), (47, 9, 4, 1), (32, 7, 0, 0), (32, 7, 3, 0), (0, 7, 0, 0),
         (220, 12, 0, 0), (219, 1, 7, 0), (179, 7, 0, 0), (32, 7, 0, 32768), (88, 7, 0, 32768)]


def gen_doc(rng, small=False):
    w, h = rng.choice(BUFS[:4] if small else BUFS)
    nl = rng.choice([1, 1, 2, 2, 3])
    ice = rng.choice([0, 0, 1, 2])
    pm = rng.choice([1, 1, 0, 3, 2])
    fm = rng.choice([0, 1, 3, 3, 2])
    sauce = rng.choice([0, 0, 0, 1, 1, 1, 1, 1]) if rng.random() < 0.97 else 2
    toks = ['B', w, h, ice, pm, fm, sauce]
    for k in range(nl):
        if k == 0 and rng.random() < 0.7:
            lw, lh, ox, oy = w, h, 0, 0
            fl = rng.choice([1, 1, 1, 1, 17, 3, 0, 25])
        else:
            lw = rng.choice([w, w, max(1, w // 2), w + 3, 1, 3])
            lh = rng.choice([h, h, max(1, h // 2), h + 2, 1, 2])
            ox = rng.choice([0, 0, 1, 2, -1, -2, w - 1, w // 2])
            oy = rng.choice([0, 0, 1, -1, h - 1, h // 2])
            fl = rng.choice(FLAGS)
        mode = rng.choice([0, 0, 0, 0, 1, 2])
        fill = rng.choice([2, 2, 2, 2, 3, 3, 1, 0])
        toks += ['L', lw, lh, ox, oy, fl, mode, fill, rng.randrange(1, 100000)]
    toks += ['P', rng.randrange(nl), 1 if rng.random() < 0.12 else 0, rng.choice([0, 0, 1, w // 2, w - 1, w]), rng.choice([0, 0, 1, h // 2, h - 1, h])]
    return ' '.join(map(str, toks)), (w, h, nl)


def xs(rng, w):
    return rng.choice([0, 0, 1, 2, w // 2, w - 2, w - 1, w - 1, w, -1, w + 2])


def ys(rng, h):
    return rng.choice([0, 0, 1, h // 2, h - 2, h - 1, h - 1, h, -1, h + 1])


def li(rng):
    return rng.choice([0, 0, 0, 1, 1, 2, 3])


# weights: the families the property text enumerates
FAMILIES = [
    ('setc', 14), ('swap', 4), ('addl', 4), ('reml', 3), ('raise', 3), ('lower', 3), ('dup', 3), ('clearl', 3), ('merge', 3),
    ('togvis', 4), ('movel', 4), ('lsize', 6), ('resize0', 3), ('resize1', 3), ('crop', 2), ('croprect', 2),
    ('sel', 9), ('clrsel', 3), ('desel', 2), ('addmask', 3), ('inverse', 2), ('erase', 4),
    ('flipx', 1), ('flipy', 1), ('jleft', 3), ('jright', 3), ('center', 3),
    ('insrow', 3), ('delrow', 3), ('inscol', 3), ('delcol', 3),
    ('scrup', 2), ('scrdown', 2), ('scrleft', 2), ('scrright', 2),
    ('rotate', 2), ('transp', 3), ('stampdown', 3), ('paste', 3), ('anchor', 3),
    ('ice', 2), ('palmode', 2), ('fontpage', 2), ('setfont', 1), ('addfont', 1), ('saucefont', 1), ('remfont', 1), ('fontslot', 1), ('replfont', 1),
    ('pal', 1), ('sauce', 1), ('enumsel', 1),
    ('centerline', 1), ('jlineleft', 1), ('jlineright', 1), ('eraserow', 1), ('eraserow_s', 1), ('eraserow_e', 1), ('erasecol', 1), ('erasecol_s', 1), ('erasecol_e', 1),
    ('caret', 6), ('cur', 6), ('mirror', 1),
]
FAM_NAMES = [f for f, _ in FAMILIES]
FAM_W = [w for _, w in FAMILIES]


def gen_op(rng, fam, w, h):
    if fam == 'setc':
        ch, fg, bg, at = rng.choice(CELLS)
        return 'setc %d %d %d %d %d %d %d' % (xs(rng, w), ys(rng, h), ch, fg, bg, at, rng.choice([0, 0, 0, 0, 1]))
    if fam == 'swap': return 'swap %d %d %d %d' % (xs(rng, w), ys(rng, h), xs(rng, w), ys(rng, h))
    if fam in ('addl', 'reml', 'raise', 'lower', 'dup', 'clearl', 'merge', 'togvis'): return '%s %d' % (fam, li(rng))
    if fam == 'movel': return 'movel %d %d' % (rng.choice([0, 1, -1, 3, -4, w]), rng.choice([0, 1, -1, 2, h]))
    if fam == 'lsize': return 'lsize %d %d %d' % (li(rng), rng.choice([w, w // 2, w + 4, 1, 0, 3]), rng.choice([h, h // 2, h + 3, 1, 0, 2]))
    if fam == 'resize0': return 'resize 0 %d %d' % (rng.choice([w, w // 2, w + 5, 1, 3]), rng.choice([h, h // 2, h + 4, 1, 2]))
    if fam == 'resize1': return 'resize 1 %d %d' % (rng.choice([w, w // 2, w + 5, 1, 3]), rng.choice([h, h // 2, h + 4, 1, 2]))
    if fam == 'croprect':
        x, y = rng.choice([0, 1, 2, -1]), rng.choice([0, 1, -1])
        return 'croprect %d %d %d %d' % (x, y, rng.choice([w, w // 2, 2, 1, w + 2]), rng.choice([h, h // 2, 1, h + 1]))
    if fam == 'sel':
        x1, y1 = rng.choice([0, 0, 1, 2, w // 2, -1]), rng.choice([0, 0, 1, h // 2, -1])
        x2, y2 = x1 + rng.choice([1, 2, 3, w // 2, w, w + 3, 0]), y1 + rng.choice([1, 2, h // 2, h, h + 2, 0])
        return 'sel %d %d %d %d %d' % (x1, y1, x2, y2, rng.choice([0, 0, 0, 1, 2]))
    if fam == 'paste': return 'paste %d %d %d %d %d' % (rng.choice([0, 1, -1, w - 2]), rng.choice([0, 1, h - 1]), rng.choice([1, 2, 4, w]), rng.choice([1, 2, 3]), rng.randrange(1000))
    if fam == 'ice': return 'ice %d' % rng.randrange(3)
    if fam == 'palmode': return 'palmode %d' % rng.randrange(4)
    if fam == 'fontpage': return 'fontpage %d' % rng.choice([0, 1, 2, 100])
    if fam in ('setfont', 'addfont'): return '%s %d' % (fam, rng.choice([0, 1, 2, 5, 42, 99]))
    if fam == 'saucefont': return 'saucefont %d' % rng.randrange(2)
    if fam == 'remfont': return 'remfont %d' % rng.choice([0, 1, 2, 100])
    if fam in ('fontslot', 'replfont'): return '%s %d %d' % (fam, rng.choice([0, 1, 2, 100]), rng.choice([0, 1, 3, 101]))
    if fam == 'pal': return rng.choice(['pal 0 11141120 43520 170', 'pal 0 16777215', 'pal ' + ' '.join(str(1052688 * k) for k in range(16))])
    if fam == 'sauce': return 'sauce %d %d %d' % (rng.randrange(4), rng.choice([w, 80]), rng.choice([h, 25]))
    if fam == 'enumsel': return 'enumsel %d' % rng.choice([65, 32, 81])
    if fam == 'caret': return 'caret %d %d' % (xs(rng, w), ys(rng, h))
    if fam == 'cur': return 'cur %d' % li(rng)
    if fam == 'mirror': return 'mirror %d' % rng.randrange(2)
    return fam


def gen_history(rng, w, h, maxlen):
    n = rng.randint(1, maxlen)
    fams = rng.choices(FAM_NAMES, weights=FAM_W, k=n)
    # at most two of the (slow) flip operations per history
    seen = 0
    for i, f in enumerate(fams):
        if f in ('flipx', 'flipy'):
            seen += 1
            if seen > 2: fams[i] = 'jleft'
    return [gen_op(rng, f, w, h) for f in fams]


def alphabet(w, h):
    """the fixed operation alphabet of the exhaustive short histories (boundary parameters on a w x h buffer)"""
    return [
        'setc 1 1 81 7 0 0 0', 'setc %d %d 66 14 1 0 0' % (w - 1, h - 1), 'setc 2 1 32 7 0 32768 0', 'swap 1 1 %d %d' % (w - 1, h - 1),
        'addl 0', 'reml 0', 'reml 1', 'raise 0', 'lower 1', 'dup 0', 'clearl 0', 'clearl 1', 'merge 1', 'togvis 0', 'togvis 1',
        'movel 2 -1', 'lsize 0 %d %d' % (w // 2, h // 2), 'lsize 0 %d %d' % (w + 2, h + 1), 'lsize 1 3 2', 'resize 0 %d %d' % (w // 2, h + 2),
        'resize 1 %d %d' % (w // 2, h // 2), 'resize 1 %d %d' % (w + 3, h + 1), 'croprect 1 1 %d %d' % (w // 2, h // 2), 'crop',
        'sel 1 1 %d %d 0' % (w // 2 + 1, h // 2 + 1), 'sel 0 0 %d %d 0' % (w, h), 'sel 2 0 4 %d 2' % h, 'clrsel', 'desel', 'addmask', 'inverse', 'erase',
        'flipx', 'flipy', 'jleft', 'jright', 'center', 'insrow', 'delrow', 'inscol', 'delcol', 'scrup', 'scrdown', 'scrleft', 'scrright',
        'rotate', 'transp', 'stampdown', 'paste 1 1 3 2 7', 'anchor', 'ice 1', 'ice 2', 'palmode 0', 'palmode 3', 'fontpage 1',
        'setfont 1', 'addfont 2', 'remfont 0', 'fontslot 0 3', 'replfont 0 1', 'pal 0 11141120 43520 170', 'sauce 2 80 25', 'enumsel 65', 'centerline', 'jlineright', 'eraserow', 'erasecol_e',
        'caret 2 1', 'caret %d %d' % (w - 1, h - 1), 'cur 1', 'cur 0', 'mirror 1',
    ]


def op_name(op):
    t = op.split()
    if t[0] == 'resize': return 'resize%s' % t[1]
    return t[0]
