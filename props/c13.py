"""C13 — layer compositing obeys the stacking laws (DESIGN.md section 7, C13; notes/C13.md)."""
import json

ID = 'C13'
GENERATORS = ['gen_comp']
COQ_TARGETS = ['Props/C13.vo', 'Run/RunC13.vo']
PROPS_MODULE = 'Props.C13'
THEOREMS = ['hidden_irrelevant', 'edit_hidden_layer', 'noncovering_irrelevant',
            'alpha_invisible_cell_irrelevant', 'alpha_invisible_cell_irrelevant_covered_below',
            'alpha_invisible_cell_upto_font_page', 'opaque_hides', 'layer_contribution_translates', 'translate',
            'insert_empty_alpha', 'insert_empty_alpha_upto_font_page', 'all_invisible_is_empty',
            'determined_by_covering_visible_layers', 'determined_by_contributions',
            'get_char_spec_refines', 'get_char_spec_plain', 'get_char_never_panics_in_range',
            'small_coordinates_do_not_overflow']
SWEEP_LEMMAS = []
TRUSTED = ['Coq 8.16.1 kernel (+ vm_compute for the non-vacuity Examples and model evaluation); no axioms (Print Assumptions: closed)',
           'translator/gen_comp.py + vlib/rustsrc.py (constants and default/invisible cell literals, template-matched)',
           'hand-written model coq/Model/Composite.v, tied to Buffer::get_char by stage C on generated stacks at every position of bbox+2',
           'harness/src/c13.rs (builds Buffer/Layer through the public API) and the python law oracle of the search stage']
UNMODELLED = ['overlay layer (Buffer::get_overlay_layer): None in every buffer the property quantifies over',
              'i32 overflow inside HalfBlock::from (font.size.width*height, bit counts): fonts are abstract in the theorems',
              'callers of get_char (render_to_rgba, flat_clone, get_line_length)',
              'an opaque Chars/Attributes layer does not hide what is beneath it (the alpha flag is only consulted for Normal layers): '
              'opaque_hides is stated for Normal layers']
ASSUMPTIONS = ['coordinates, sizes and offsets are i32 values; `pos - offset` is a checked subtraction (dev profile) — modelled, the theorems that need it carry a no-overflow hypothesis',
               'the overlay layer is absent']
RULE = ('stacks per the quantifier: 1..=5 layers built with Layer::new + set_char, sizes 1..=12 x 1..=8, offsets -4..=6, '
        'Normal/Chars/Attributes, alpha/opaque, visible/hidden, sparse cells (letters, blanks, half blocks 220/223 with transparent '
        'foreground/background, invisible cells carrying a character), default font at page 0; plus (stage C only) wild stacks: raw ragged '
        '`lines`, sizes 0/negative, preview offsets, default_font_page 0..3, custom fonts on pages 1..2, terminal buffers, i32-extreme '
        'offsets; every position of bounding box + 2; a stack is non-trivial when at least one queried cell is visible; '
        'distinct = distinct encoded stacks')

INV = 0x8000
T = 1 << 31
MODES = ['MNormal', 'MChars', 'MAttributes']
INVISIBLE_CELL = (32, 7, 0, INV, 0)

# ---------------------------------------------------------------------------
# stacks: python description shared by the harness encoding, the Coq encoding and the law oracle

def mk_layer(visible=True, alpha=False, mode=0, off=(0, 0), preview=None, w=1, h=1, dfp=0, rows=None, sets=None):
    return {'visible': visible, 'alpha': alpha, 'mode': mode, 'off': tuple(off), 'preview': preview, 'w': w, 'h': h,
            'dfp': dfp, 'rows': rows, 'sets': sets}

def layer_rows(L):
    """the `lines` of the layer as the implementation will have them"""
    if L['rows'] is not None:
        return L['rows']
    rows = [[INVISIBLE_CELL] * max(L['w'], 0) for _ in range(max(L['h'], 0))]
    for (x, y, c) in L['sets']:
        if 0 <= x < L['w'] and 0 <= y < L['h']:
            rows[y][x] = c
    return rows

def layer_offset(L):
    return L['preview'] if L['preview'] is not None else L['off']

def layer_cell(L, qx, qy):
    """python reading of Layer::get_char, used only by the law oracle to know where a layer's cells are invisible"""
    if qx < 0 or qy < 0 or qx >= L['w'] or qy >= L['h']:
        return None
    rows = layer_rows(L)
    if qy < len(rows) and qx < len(rows[qy]):
        return rows[qy][qx]
    return INVISIBLE_CELL

def covers(L, p):
    ox, oy = layer_offset(L)
    return 0 <= p[0] - ox < L['w'] and 0 <= p[1] - oy < L['h']

def stack_rect(layers, border=2):
    xs = []; ys = []
    for L in layers:
        ox, oy = layer_offset(L)
        if abs(ox) > 1000 or abs(oy) > 1000: continue
        xs += [ox, ox + max(L['w'], 0)]; ys += [oy, oy + max(L['h'], 0)]
    if not xs: xs = [0, 1]; ys = [0, 1]
    return (min(xs) - border, min(ys) - border, max(xs) - 1 + border, max(ys) - 1 + border)

def union_rect(a, b):
    return (min(a[0], b[0]), min(a[1], b[1]), max(a[2], b[2]), max(a[3], b[3]))

def positions(rect):
    return [(x, y) for y in range(rect[1], rect[3] + 1) for x in range(rect[0], rect[2] + 1)]

def enc_case(stack, rect):
    a = [1 if stack['term'] else 0, len(stack['fonts'])]
    for (page, w, h, glyphs) in stack['fonts']:
        a += [page, w, h, len(glyphs)]
        for ch, data in glyphs:
            a += [ch, len(data)] + list(data)
    a.append(len(stack['layers']))
    for L in stack['layers']:
        pv = L['preview']
        a += [int(L['visible']), int(L['alpha']), L['mode'], L['off'][0], L['off'][1], 1 if pv is not None else 0,
              pv[0] if pv else 0, pv[1] if pv else 0, L['w'], L['h'], L['dfp']]
        if L['rows'] is not None:
            a += [0, len(L['rows'])]
            for r in L['rows']:
                a.append(len(r))
                for c in r: a += list(c)
        else:
            a += [1, len(L['sets'])]
            for (x, y, c) in L['sets']:
                a += [x, y] + list(c)
    a += list(rect)
    return 'comp ' + ' '.join(map(str, a))

def dec_case(case):
    """inverse of enc_case (used by --replay to hand the recorded stacks to the model)"""
    a = [int(x) for x in case.split()[1:]]
    pos = [0]
    def nx():
        v = a[pos[0]]; pos[0] += 1; return v
    def cell():
        return tuple(nx() for _ in range(5))
    term = nx() != 0
    fonts = []
    for _ in range(nx()):
        page, w, h, ng = nx(), nx(), nx(), nx()
        glyphs = []
        for _ in range(ng):
            ch = nx(); ln = nx(); glyphs.append((ch, [nx() for _ in range(ln)]))
        fonts.append((page, w, h, glyphs))
    layers = []
    for _ in range(nx()):
        vis, alpha, mode, ox, oy, hp, px, py, w, h, dfp, build = [nx() for _ in range(12)]
        L = mk_layer(visible=bool(vis), alpha=bool(alpha), mode=mode, off=(ox, oy), preview=(px, py) if hp else None, w=w, h=h, dfp=dfp)
        if build == 0:
            L['rows'] = [[cell() for _ in range(nx())] for _ in range(nx())]
        else:
            L['sets'] = [(nx(), nx(), cell()) for _ in range(nx())]
        layers.append(L)
    rect = (nx(), nx(), nx(), nx())
    return {'term': term, 'fonts': fonts, 'layers': layers}, rect

def z(v):
    return str(v) if v >= 0 else '(%d)' % v

def coq_layer(L):
    pv = L['preview']
    rows = layer_rows(L)
    rs = '[' + '; '.join('[' + '; '.join('C %d %d %d %d %d' % c for c in r) + ']' for r in rows) + ']'
    return 'mkLayer %s %s %s (%s, %s) %s %s %s %d %s' % (
        'true' if L['visible'] else 'false', 'true' if L['alpha'] else 'false', MODES[L['mode']],
        z(L['off'][0]), z(L['off'][1]), ('(Some (%s, %s))' % (z(pv[0]), z(pv[1]))) if pv is not None else 'None',
        z(L['w']), z(L['h']), L['dfp'], rs)

def coq_case(stack, rect):
    fs = []
    pages = [f[0] for f in stack['fonts']]
    if 0 not in pages:
        fs.append('(0, font0)')
    for (page, w, h, glyphs) in stack['fonts']:
        fs.append('(%d, (%s, %s, [%s]))' % (page, z(w), z(h), '; '.join('(%d, [%s])' % (ch, '; '.join(map(str, d))) for ch, d in glyphs)))
    return 'run_comp %s [%s] [%s] %s %s %s %s' % ('true' if stack['term'] else 'false', '; '.join(fs),
                                                   '; '.join(coq_layer(L) for L in stack['layers']), z(rect[0]), z(rect[1]), z(rect[2]), z(rect[3]))

def coq_header(font0):
    w, h, glyphs = font0
    return ('From IE Require Import Run.RunC13 Model.Composite.\nLocal Open Scope Z_scope.\n'
            'Definition font0 : Z * Z * list (Z * list Z) := (%d, %d, [%s]).' %
            (w, h, '; '.join('(%d, [%s])' % (ch, '; '.join(map(str, d))) for ch, d in glyphs)))

def parse_font0(ints):
    w, h, n = ints[0], ints[1], ints[2]
    i = 3; glyphs = []
    for ch in range(256):
        ln = ints[i]; i += 1
        if ln < 0: continue
        glyphs.append((ch, ints[i:i+ln])); i += ln
    return (w, h, glyphs)

# ---------------------------------------------------------------------------
# generators

CHARS = [65, 66, 67, 68, 88, 97, 32, 32, 0, 219, 220, 223, 176, 178, 254, 0x2588]

def gen_cell(rng, wild=False):
    r = rng.random()
    fp = 0 if rng.random() < 0.8 else rng.randrange(1, 4)
    attr = rng.choice([0, 0, 0, 1, 8, 9, 0x10, 0x200])
    if r < 0.18:      # transparent-colour half block
        ch = rng.choice([220, 223, 220, 223, 219, 65, 32])
        fg = T if rng.random() < 0.5 else rng.randrange(16)
        bg = T if (fg != T or rng.random() < 0.4) else rng.randrange(8)
        return (ch, fg, bg, attr, fp)
    if r < 0.24:      # invisible cell that still carries content
        return (rng.choice(CHARS), rng.randrange(16), rng.randrange(8), INV | rng.choice([0, 0, 1, 8]), fp)
    if r < 0.30:      # "transparent" in the sense of is_transparent: blank on black
        return (rng.choice([0, 32]), rng.randrange(16), 0, attr, fp)
    ch = rng.choice(CHARS) if not wild or rng.random() < 0.9 else rng.randrange(0, 0x3000)
    return (ch, rng.randrange(16), rng.randrange(8) if rng.random() < 0.8 else rng.randrange(16), attr, fp)

def gen_layer_quant(rng, hidden_p=0.2):
    w = rng.randint(1, 12); h = rng.randint(1, 8)
    dens = rng.choice([0.05, 0.15, 0.3, 0.6, 1.0])
    sets = []
    for y in range(h):
        for x in range(w):
            if rng.random() < dens:
                sets.append((x, y, gen_cell(rng)))
    if rng.random() < 0.1:
        sets.append((rng.randint(-2, w + 1), rng.randint(-2, h + 1), gen_cell(rng)))   # set_char ignores out-of-range positions
    return mk_layer(visible=rng.random() >= hidden_p, alpha=rng.random() < 0.6, mode=rng.choice([0, 0, 0, 1, 2]),
                    off=(rng.randint(-4, 6), rng.randint(-4, 6)), w=w, h=h, dfp=0, sets=sets)

def gen_stack_quant(rng, term_p=0.15):
    n = rng.randint(1, 5)
    return {'term': rng.random() < term_p, 'fonts': [], 'layers': [gen_layer_quant(rng) for _ in range(n)]}

def gen_font(rng, page):
    w = rng.choice([8, 8, 4, 1, 0, 9]); h = rng.choice([16, 8, 4, 2, 1, 0, 14])
    glyphs = []
    for ch in rng.sample(CHARS[:-1] + [1, 2], rng.randint(0, 8)):
        if any(g[0] == ch for g in glyphs): continue
        ln = rng.choice([h, h, h, 0, 1, 3, 7])
        glyphs.append((ch, [rng.choice([0, 255, 0xF0, 0x81, rng.randrange(256)]) for _ in range(ln)]))
    return (page, w, h, glyphs)

def gen_layer_wild(rng):
    w = rng.choice([0, 1, 2, 3, 5, 8, 12, -1]); h = rng.choice([0, 1, 2, 3, 5, 8, -2])
    nrows = rng.randint(0, max(h, 0) + 2)
    rows = []
    for _ in range(nrows):
        ln = rng.randint(0, max(w, 0) + 2)
        rows.append([gen_cell(rng, True) if rng.random() < 0.6 else INVISIBLE_CELL for _ in range(ln)])
    return mk_layer(visible=rng.random() < 0.85, alpha=rng.random() < 0.5, mode=rng.choice([0, 0, 1, 2]),
                    off=(rng.randint(-4, 6), rng.randint(-4, 6)),
                    preview=(rng.randint(-4, 6), rng.randint(-4, 6)) if rng.random() < 0.15 else None,
                    w=w, h=h, dfp=rng.choice([0, 0, 1, 2, 3]), rows=rows)

def gen_stack_wild(rng):
    n = rng.randint(0, 6)
    fonts = [gen_font(rng, p) for p in (0, 1, 2) if rng.random() < (0.15 if p == 0 else 0.5)]
    return {'term': rng.random() < 0.4, 'fonts': fonts, 'layers': [gen_layer_wild(rng) for _ in range(n)]}

I32_MIN = -(1 << 31); I32_MAX = (1 << 31) - 1

def gen_extreme(rng):
    """offsets at the i32 limits: `pos - offset` overflows (panic in the dev profile) or just does not"""
    st = gen_stack_quant(rng)
    L = rng.choice(st['layers'])
    e = rng.choice([I32_MIN, I32_MIN + 1, I32_MIN + 3, I32_MAX, I32_MAX - 2])
    if rng.random() < 0.5: L['off'] = (e, rng.randint(-2, 2))
    else: L['off'] = (rng.randint(-2, 2), e)
    p = (rng.choice([-3, -1, 0, 1, 2, 5]), rng.choice([-3, -1, 0, 1, 2, 5]))
    return st, (p[0], p[1], p[0], p[1])

# ---------------------------------------------------------------------------
def visible_obs(o):
    return (o[3] & INV) == 0

def grid(ints, rect):
    ps = positions(rect)
    if len(ints) != 5 * len(ps): return None
    return {p: tuple(ints[5*i:5*i+5]) for i, p in enumerate(ps)}

_state = {'font0': None, 'disagree': []}

def get_font0(ctx):
    if _state['font0'] is None:
        r = ctx.impl(['font0'])[0]
        if r[0] != 'ok': raise RuntimeError('font0: %r' % (r,))
        _state['font0'] = parse_font0(r[1])
    return _state['font0']

def correspondence(ctx):
    font0 = get_font0(ctx)
    n = ctx.n(600, 10000)
    items = []
    for i in range(n):
        k = i % 10
        if k < 5: st = gen_stack_quant(ctx.rng); items.append(('quant', st, stack_rect(st['layers'])))
        elif k < 9: st = gen_stack_wild(ctx.rng); items.append(('wild', st, stack_rect(st['layers'])))
        else: st, rect = gen_extreme(ctx.rng); items.append(('extreme', st, rect))
    for st, rect in directed_stacks():
        items.append(('directed', st, rect))
    cases = [enc_case(st, rect) for _, st, rect in items]
    impl = ctx.impl(cases)
    # the model's observation is compared with the implementation's inside Coq (check_comp): [] = equal
    def expected(r):
        if r is not None and r[0] == 'ok': return r[1]
        if r is not None and r[0] == 'panic' and 'position.rs' in r[1]: return [-1]
        return [-3]
    exprs = ['check_comp' + coq_case(st, rect)[len('run_comp'):] + ' [' + '; '.join(z(v) for v in expected(r)) + ']'
             for (_, st, rect), r in zip(items, impl)]
    model = ctx.model(coq_header(font0), exprs, timeout=1500)
    dis = []; dist = {}; nontrivial = 0; panics = 0; positions_n = 0
    _state['disagree'] = []
    for (kind, st, rect), c, r, m in zip(items, cases, impl, model):
        dist[kind] = dist.get(kind, 0) + 1
        ok = (m == []) and r is not None and r[0] in ('ok', 'panic')
        if ok and r[0] == 'panic': panics += 1
        if ok and r[0] == 'ok':
            o = r[1]
            positions_n += len(o) // 5
            if any((o[5*i+3] & INV) == 0 for i in range(len(o) // 5)): nontrivial += 1
        if not ok:
            d = {'case': c if len(c) < 3000 else c[:3000] + '…', 'impl': r if r is None or r[0] != 'ok' else 'ok',
                 'model': None if m is None else ('panic' if m[1:] == [-1] else 'evaluated')}
            if r is not None and r[0] == 'ok' and m:
                g1 = grid(r[1], rect); g2 = grid(m[1:], rect)
                if g1 and g2:
                    bad = [p for p in positions(rect) if g1[p] != g2[p]]
                    d['first_difference'] = {'pos': bad[0], 'impl': g1[bad[0]], 'model': g2[bad[0]]} if bad else None
                else:
                    d['lengths'] = [len(r[1]), len(m) - 1]
            dis.append(d)
            _state['disagree'].append(st)
    dist['panic_cases(i32 overflow, both sides)'] = panics
    dist['positions_compared'] = positions_n
    dist['model_errors'] = getattr(ctx, 'model_errors', [])[:2]
    return {'cases': len(cases), 'disagreements': dis, 'distinct_nontrivial': nontrivial,
            'distribution': dist, 'samples': [cases[0][:400], cases[5][:400]]}

# ---------------------------------------------------------------------------
# directed stacks (regressions, boundary shapes)

def witness_chars_invisible():
    """the input that violated the property before the fix commit: an invisible cell ('A' | INVISIBLE) of a Chars-mode alpha
    layer replaced the character of the layer below"""
    bottom = mk_layer(alpha=False, mode=0, w=2, h=1, sets=[(0, 0, (120, 7, 0, 0, 0))])
    top = mk_layer(alpha=True, mode=1, w=2, h=1, sets=[(0, 0, (65, 7, 0, INV, 0))])
    return {'term': False, 'fonts': [], 'layers': [bottom, top]}

def directed_stacks():
    out = []
    st = witness_chars_invisible(); out.append((st, stack_rect(st['layers'])))
    # transparent half block over a solid block, over blank, at the edge of an opaque layer
    for under in (219, 220, 223, 32, 65):
        for tch in (220, 223, 65):
            for (fg, bg) in ((T, 4), (2, T), (T, T)):
                b = mk_layer(alpha=False, mode=0, w=3, h=2, sets=[(0, 0, (under, 14, 1, 0, 0)), (1, 0, (under, T, 1, 0, 0))])
                t = mk_layer(alpha=True, mode=0, w=3, h=2, off=(0, 0), sets=[(0, 0, (tch, fg, bg, 0, 0)), (1, 0, (tch, fg, bg, 0, 0)), (2, 1, (tch, fg, bg, 0, 0))])
                out.append(({'term': False, 'fonts': [], 'layers': [b, t]}, (-1, -1, 3, 2)))
    # chars / attributes overrides above opaque-invisible and above nothing
    for term in (False, True):
        c = mk_layer(alpha=True, mode=1, w=3, h=1, sets=[(0, 0, (66, 1, 2, 0, 2)), (1, 0, (67, 1, 2, 0, 2))])
        a = mk_layer(alpha=True, mode=2, w=3, h=1, sets=[(0, 0, (68, 3, T, 1, 1)), (2, 0, (69, T, 5, 8, 1))])
        n = mk_layer(alpha=False, mode=0, w=2, h=1, off=(1, 0), sets=[(0, 0, (70, 9, 1, 0, 3))], dfp=0)
        out.append(({'term': term, 'fonts': [], 'layers': [n, a, c]}, (-1, -1, 4, 1)))
        out.append(({'term': term, 'fonts': [], 'layers': [a, c]}, (-1, -1, 4, 1)))
        out.append(({'term': term, 'fonts': [], 'layers': []}, (0, 0, 1, 1)))
    return out

# ---------------------------------------------------------------------------
# search stage: the stacking laws executed on the real Buffer::get_char

def eqv(a, b):
    """the comparison the property prescribes: invisible results compare as invisible only"""
    if not visible_obs(a) and not visible_obs(b): return True
    return a == b

def clone_stack(st):
    return json.loads(json.dumps(st), object_hook=None)

def fix_tuples(st):
    for L in st['layers']:
        L['off'] = tuple(L['off'])
        if L['preview'] is not None: L['preview'] = tuple(L['preview'])
        if L['rows'] is not None: L['rows'] = [[tuple(c) for c in r] for r in L['rows']]
        if L['sets'] is not None: L['sets'] = [(s[0], s[1], tuple(s[2])) for s in L['sets']]
    st['fonts'] = [(f[0], f[1], f[2], [(g[0], list(g[1])) for g in f[3]]) for f in st['fonts']]
    return st

def copy_stack(st):
    return fix_tuples(clone_stack(st))

def law_instances(rng, st):
    """yield (law, stackA, stackB, rect, delta, keep) : get_char A p ~ get_char B (p+delta) for every p of rect with keep(p)"""
    layers = st['layers']
    n = len(layers)
    base_rect = stack_rect(layers)
    out = []
    def with_layers(ls):
        s = dict(st); s['layers'] = ls; return s
    # 1. hidden layers: replace by another hidden layer, edit, remove
    k = rng.randrange(n)
    hid = dict(layers[k]); hid['visible'] = False
    A = with_layers(layers[:k] + [hid] + layers[k+1:])
    other = gen_layer_quant(rng); other['visible'] = False
    B1 = with_layers(layers[:k] + [other] + layers[k+1:])
    B2 = with_layers(layers[:k] + layers[k+1:])
    edited = dict(hid); edited['sets'] = [(x, y, gen_cell(rng)) for y in range(hid['h']) for x in range(hid['w']) if rng.random() < 0.4] if hid['sets'] is not None else hid['sets']
    B3 = with_layers(layers[:k] + [edited] + layers[k+1:])
    r = union_rect(base_rect, stack_rect(B1['layers']))
    out.append(('hidden_replaced', A, B1, r, (0, 0), None))
    out.append(('hidden_removed', A, B2, r, (0, 0), None))
    out.append(('hidden_edited', A, B3, r, (0, 0), None))
    # 2. a layer does not influence positions outside its rectangle
    k = rng.randrange(n); L = layers[k]
    out.append(('noncovering', st, with_layers(layers[:k] + layers[k+1:]), base_rect, (0, 0), (lambda p, L=L: not covers(L, p))))
    # 3. invisible cells of alpha layers (Normal+alpha, or Chars/Attributes whose cells only ever add) do not influence
    cand = [i for i, L in enumerate(layers) if L['alpha'] and L['visible']]
    if cand:
        k = rng.choice(cand); L = layers[k]
        def keep(p, L=L):
            ox, oy = layer_offset(L)
            c = layer_cell(L, p[0] - ox, p[1] - oy)
            return c is None or (c[3] & INV) != 0
        out.append(('alpha_invisible_cell', st, with_layers(layers[:k] + layers[k+1:]), base_rect, (0, 0), keep))
    # 4. an opaque visible Normal layer hides everything beneath it inside its rectangle
    k = rng.randrange(n)
    op = dict(layers[k]); op['visible'] = True; op['alpha'] = False; op['mode'] = 0
    below2 = [gen_layer_quant(rng) for _ in range(rng.randint(0, 3))]
    A = with_layers(layers[:k] + [op] + layers[k+1:])
    B = with_layers(below2 + [op] + layers[k+1:])
    out.append(('opaque_hides', A, B, union_rect(base_rect, stack_rect(B['layers'])), (0, 0), (lambda p, L=op: covers(L, p))))
    # 5. translating the whole stack
    d = (rng.randint(-7, 7), rng.randint(-7, 7)) if rng.random() < 0.8 else (rng.randint(-100000, 100000), rng.randint(-100000, 100000))
    sh = []
    for L in layers:
        M = dict(L); M['off'] = (L['off'][0] + d[0], L['off'][1] + d[1])
        if L['preview'] is not None: M['preview'] = (L['preview'][0] + d[0], L['preview'][1] + d[1])
        sh.append(M)
    out.append(('translate', st, with_layers(sh), base_rect, d, None))
    # 6. inserting an empty alpha layer anywhere
    e = mk_layer(visible=rng.random() < 0.85, alpha=True, mode=rng.choice([0, 0, 1, 2]), off=(rng.randint(-4, 6), rng.randint(-4, 6)),
                 w=rng.randint(1, 12), h=rng.randint(1, 8), sets=[])
    k = rng.randint(0, n)
    B = with_layers(layers[:k] + [e] + layers[k:])
    out.append(('insert_empty_alpha', st, B, union_rect(base_rect, stack_rect(B['layers'])), (0, 0), None))
    return out

def run_laws(ctx, stacks_with_tag, seeds=None):
    import random
    inst = []
    for idx, (tag, st) in enumerate(stacks_with_tag):
        seed = seeds[idx] if seeds is not None else ctx.rng.getrandbits(48)
        for li in law_instances(random.Random(seed), st):
            inst.append((tag, idx, seed) + li)
    cases = []
    for (tag, idx, seed, law, A, B, rect, d, keep) in inst:
        cases.append(enc_case(A, rect))
        cases.append(enc_case(B, (rect[0] + d[0], rect[1] + d[1], rect[2] + d[0], rect[3] + d[1])))
    res = ctx.impl(cases)
    failures = []; nontrivial = 0; compared = 0; per_law = {}
    for i, (tag, idx, seed, law, A, B, rect, d, keep) in enumerate(inst):
        ra, rb = res[2*i], res[2*i+1]
        per_law[law] = per_law.get(law, 0) + 1
        if ra is None or rb is None or ra[0] != 'ok' or rb[0] != 'ok':
            bad = ra if (ra is None or ra[0] != 'ok') else rb
            failures.append({'signature': 'get_char-%s' % (bad[0] if bad else 'no-result'), 'input': {'law': law, 'a': cases[2*i], 'b': cases[2*i+1]},
                             'impl': [ra, rb], 'detail': 'Buffer::get_char did not return on a stack inside the quantifier'})
            continue
        ga = grid(ra[1], rect); gb = grid(rb[1], rect)
        ps = positions(rect)
        seen_visible = False
        for p in ps:
            if keep is not None and not keep(p): continue
            compared += 1
            a = ga[p]; b = gb[p]
            if visible_obs(a): seen_visible = True
            if not eqv(a, b):
                failures.append({'signature': 'law-%s-violated' % law,
                                 'input': {'law': law, 'a': cases[2*i], 'b': cases[2*i+1], 'pos': list(p), 'delta': list(d)},
                                 'impl': {'a': list(a), 'b': list(b)}, 'expected': 'equal cells (invisible compared as invisible only)',
                                 'detail': 'law %s: get_char differs at %r between the two stacks the law relates (%s stack)' % (law, p, tag),
                                 '_stack': idx, '_seed': seed})
                break
        if seen_visible: nontrivial += 1
    return len(cases), failures, nontrivial, compared, per_law

def shrink_candidates(st):
    """smaller stacks: one layer removed; one layer's cells halved / reduced to one; a layer made 1 cell smaller"""
    out = []
    ls = st['layers']
    def with_layers(x):
        s2 = dict(st); s2['layers'] = x; return s2
    if len(ls) > 1:
        for k in range(len(ls)):
            out.append(with_layers(ls[:k] + ls[k+1:]))
    for k, L in enumerate(ls):
        if L['sets']:
            n = len(L['sets'])
            parts = [L['sets'][:n // 2], L['sets'][n // 2:]] if n > 1 else [[]]
            if n <= 6: parts += [L['sets'][:i] + L['sets'][i+1:] for i in range(n)]
            for part in parts:
                M = dict(L); M['sets'] = part
                out.append(with_layers(ls[:k] + [M] + ls[k+1:]))
        if L['rows']:
            M = dict(L); M['rows'] = L['rows'][:len(L['rows']) // 2]
            out.append(with_layers(ls[:k] + [M] + ls[k+1:]))
        if L['w'] > 1 and L['sets'] is not None:
            M = dict(L); M['w'] = L['w'] - 1; out.append(with_layers(ls[:k] + [M] + ls[k+1:]))
        if L['h'] > 1 and L['sets'] is not None:
            M = dict(L); M['h'] = L['h'] - 1; out.append(with_layers(ls[:k] + [M] + ls[k+1:]))
    return out

def minimise(ctx, failure, stack, seed, rounds=14):
    """greedy shrinking of the stack a law failed on: keep a smaller stack whenever the same law still fails on it
    (the law's own random choices are re-drawn from a few fixed seeds)"""
    sig = failure['signature']
    best = failure; cur = stack
    for _ in range(rounds):
        cands = shrink_candidates(cur)
        if not cands: break
        seeds = [seed, seed + 1, seed + 2]
        tagged = [('shrunk', c) for c in cands for _s in seeds]
        _, fs, _, _, _ = run_laws(ctx, tagged, seeds=[sd for c in cands for sd in seeds])
        hit = [f for f in fs if f['signature'] == sig]
        if not hit: break
        hit.sort(key=lambda f: len(str(f['input'])))
        best = hit[0]; cur = tagged[best['_stack']][1]; seed = best['_seed']
    return best

def search(ctx, broken):
    stacks = []
    for st in _state['disagree'][:20]:
        if st['layers'] and all(abs(v) < 100000 for L in st['layers'] for v in L['off']):
            st = copy_stack(st)
            for L in st['layers']: L['dfp'] = 0      # the laws are claimed for layers as Layer::new makes them
            stacks.append(('disagreeing', st))
    stacks.append(('regression', witness_chars_invisible()))
    for st, _ in directed_stacks():
        if st['layers']: stacks.append(('directed', st))
    for _ in range(ctx.n(2000, 6500)):
        stacks.append(('random', gen_stack_quant(ctx.rng, term_p=0.1)))
    ncases, failures, nontrivial, compared, per_law = run_laws(ctx, stacks)
    failures.sort(key=lambda f: len(str(f['input'])))
    # minimise the first failure of each signature (the one the driver reports)
    first = {}
    for f in failures:
        first.setdefault(f['signature'], f)
    for sig, f in list(first.items())[:8]:
        try:
            m = minimise(ctx, f, stacks[f['_stack']][1], f['_seed'])
        except Exception as ex:
            m = f
        if m is not f:
            failures.insert(0, m)
    failures.sort(key=lambda f: len(str(f['input'])))
    for f in failures:
        f.pop('_stack', None); f.pop('_seed', None)
    return {'cases': ncases, 'failures': failures, 'distinct_nontrivial': nontrivial, 'positions_compared': compared,
            'law_instances': per_law, 'samples': [enc_case(stacks[-1][1], stack_rect(stacks[-1][1]['layers']))[:400]]}

def replay(ctx, body):
    from vlib import driver
    inp = body.get('input')
    print('replay', ID, json.dumps(inp)[:2000])
    if not isinstance(inp, dict) or 'a' not in inp:
        print(json.dumps(body, indent=1)); return 1
    ok, out = driver.stage_build()
    ra, rb = ctx.impl([inp['a'], inp['b']])
    print('law:', inp.get('law'), 'position:', inp.get('pos'), 'delta:', inp.get('delta'))
    if ra[0] != 'ok' or rb[0] != 'ok':
        print('implementation:', ra, rb); return 1
    def rect_of(c):
        a = c.split(); return tuple(int(x) for x in a[-4:])
    r = rect_of(inp['a']); d = inp.get('delta', [0, 0])
    ga = grid(ra[1], r); gb = grid(rb[1], rect_of(inp['b']))
    p = tuple(inp['pos']); q = (p[0] + d[0], p[1] + d[1])
    print('implementation, stack a at %r: %r' % (p, ga[p])); print('implementation, stack b at %r: %r' % (q, gb[q]))
    try:
        sa, _ = dec_case(inp['a']); sb, _ = dec_case(inp['b'])
        m = ctx.model(coq_header(get_font0(ctx)), [coq_case(sa, (p[0], p[1], p[0], p[1])), coq_case(sb, (q[0], q[1], q[0], q[1]))])
        print('model,          stack a at %r: %r' % (p, tuple(m[0]) if m[0] else m[0])); print('model,          stack b at %r: %r' % (q, tuple(m[1]) if m[1] else m[1]))
    except Exception as ex:
        print('model evaluation failed: %r' % ex)
    print('oracle: cells %s (invisible compared as invisible only)' % ('EQUAL' if eqv(ga[p], gb[q]) else 'DIFFER'))
    return 0 if eqv(ga[p], gb[q]) else 1

LEVEL_TEXT = ('Machine-checked proof (Coq, closed under the global context) of the stacking laws of Buffer::get_char for stacks of any '
              'number of layers of any size, offset, mode, flags and (ragged) content, by induction over the layer list on a literal '
              'transcription of the loop: hidden layers, layers not covering the position and invisible cells of alpha layers do not '
              'influence the result; an opaque Normal layer hides everything beneath it; translating the stack translates the picture; '
              'with the consequences the property names (inserting an empty alpha layer, editing a hidden layer, translating the whole '
              'stack) and a declarative characterisation of the transparent-colour-free fragment. The one defect found (invisible cells of '
              'Chars layers overriding characters) is fixed in /repo and the fixed code is what is modelled. The font-page of the '
              'fall-through cell is donated by the lowest visited layer: the alpha laws are exact when default_font_page is 0 (Layer::new) '
              'and hold up to that font page otherwise (both proved, counterexample included).')
LEVEL_NOTE = ('Trusted: Coq kernel; the hand-written model Composite.v, tied to the Rust code on every run by differential execution at every '
              'position of generated stacks (constants regenerated from the source); overlay layer outside the model; no axioms.')
TECHNIQUE = 'Coq proof by induction over the layer list on a transcription of the compositing loop; differential tie; relational law oracle on the real code'
