"""C18 — 8-bit attribute and code-page codecs are exact inverses on their domain (DESIGN.md section 7, C18).

Stage C compares the hand-written Coq models with the real functions over their complete finite domains
on every run; stage S states the property on the real functions over the same complete domains."""
import json

ID = 'C18'
GENERATORS = ['gen_codepage']
COQ_TARGETS = ['Props/C18.vo', 'Run/RunC18.vo']
PROPS_MODULE = 'Props.C18'
THEOREMS = ['attr_decode_encode', 'attr_encode_decode', 'attr_encode_decode_only_if', 'expressible_iff_image',
            'attr_encode_decode_exact', 'as_u8_range', 'from_color_codec',
            'from_unicode_total', 'cp437_roundtrip', 'atascii_roundtrip', 'cp437_unicode_roundtrip', 'cp437_injective',
            'typed_roundtrip', 'from_unicode_off_keys', 'to_unicode_beyond_table', 'rev_map_last_wins',
            'as_u8_before_fix_refuted', 'fix_is_local']
SWEEP_LEMMAS = ['AttrProofs.dec_enc_sweep (256 bytes x 3 modes: as_u8 (from_u8 b m) m = b)',
                'AttrProofs.from_u8_shape_sweep (256 bytes x 3 modes: decoded attribute is not bold, default page, expressible)',
                'AttrProofs.enc_dec_sweep (3 modes x 16 fg x 16 bg x bold x blink: expressible -> shown comes back)',
                'AttrProofs.from_color_sweep (256 x 256 u8 arguments of from_color)',
                'CodepageProofs.rev_built_sweep (the five reverse maps are built without an out-of-range table index)',
                'CodepageProofs.cp437_sweep (256 codes of the generated CP437_TO_UNICODE)',
                'CodepageProofs.atascii_sweep (128 base codes of the generated ATARI_TO_UNICODE)',
                'CodepageProofs.cp437_uni_sweep (256 characters of the generated CP437_TO_UNICODE)',
                'CodepageProofs.typed_sweep (5 converters x 128 ASCII characters, the 63 typed ones checked)',
                'CodepageProofs.fwd_table_length_sweep (the four forward tables have 256 entries)']
TRUSTED = ['Coq 8.16.1 kernel + vm_compute (complete sweeps of the finite domains, model evaluation); no axioms (Print Assumptions: closed)',
           'translator/gen_codepage.py + vlib/rustsrc.py: tokenizer, char/number literal parser, template matcher for the lazy_static reverse-map idiom',
           'the hand-written bodies of from_u8 / as_u8 / from_color / the setters / the five converters in Model/Attr.v and Model/Codepage.v, '
           'tied to the code by an exhaustive differential run over their whole domains on every run (stage C, exhaustive = true)',
           'std::collections::HashMap insert/get semantics (modelled as newest-first association list; rev_map_last_wins states what that means)',
           'harness/src/c18.rs and the python oracle of the search stage']
UNMODELLED = ['callers of the codec (bin/xbin/avatar/idf/adf readers and writers, pcboard/avatar parsers): C04-C07, C15',
              'attribute flags other than bold and blink (not representable in the 8-bit byte; as_u8 ignores them, from_u8 never sets them: proved/tied)',
              'in the quick tier convert_from_unicode/convert_to_unicode of PETSCII beyond U+0FFF are compared on sampled characters only (they convert the low byte of every char); the thorough tier sweeps the whole char domain']
ASSUMPTIONS = ['Rust u8/u16/u32 operators behave as written into the model: `!flag` on u16 is xor 0xFFFF, `as u8` is mod 256, `char as u8` keeps the low byte',
               'a `char` is identified with its scalar value; HashMap<char,char>::insert overwrites an existing key']
RULE = ('no sampling for the domains the property quantifies over: all 256 bytes x 3 modes, the full 16x16 colour grid x bold x blink x 3 modes '
        '(also with extra flag words and font pages), the bold/blink setters and getters on 8192 flag words (quick) or all 65536 (thorough), all u8 x u8 arguments of from_color, '
        'codes 0..255 (to_unicode) and characters 0..0x2FF plus every table character and its neighbours (from_unicode) for the five converters, '
        'and the whole `char` domain (1 112 064 scalar values) for the non-identity set of the four table converters; seeded random cases only for '
        'attributes with arbitrary u32 colours / flag words / font pages and for far-away characters. Every element is a distinct non-trivial case.')

MODES = ['Unlimited', 'Blink', 'Ice']            # numbered as IceMode::to_byte
CONVS = ['cp437', 'atascii', 'petscii', 'viewdata', 'mode7']
TYPED = [32] + list(range(48, 58)) + list(range(65, 91)) + list(range(97, 123))
IMPORTS = 'From IE Require Import Run.RunC18.\nLocal Open Scope N_scope.'
WEIGHT = {'flags': 2000, 'fromcolor': 4096, 'attrdec': 1024, 'attrenc': 256, 'convfrom': 768, 'convto': 400, 'convfroml': 300, 'convtol': 128, 'convnonid': 600}
BOLD, BLINK = 1, 8                                # only used to build flag words for stage C inputs

def is_char(x):
    return 0 <= x < 0x110000 and not (0xD800 <= x < 0xE000)

def table_chars(ctx):
    """characters of the generated tables (read back from coq/Gen/Codepage.v, i.e. from the source)"""
    import os, re
    from vlib import driver
    try:
        txt = open(os.path.join(driver.COQ, 'Gen', 'Codepage.v')).read()
    except OSError:
        return []
    out = set()
    for m in re.finditer(r'Definition \w+_TO_UNICODE : list N := \[([^\]]*)\]', txt):
        out |= {int(x) for x in m.group(1).split(';') if x.strip()}
    return sorted(out)

# --------------------------------------------------------------------------- stage C
def corr_cases(ctx):
    """list of (harness case, Gallina expression, label, post) — post normalises both sides (e.g. pair sets)"""
    rng = ctx.rng
    cs = []
    for m in range(3):
        cs.append(('attrdec %d' % m, 'run_attrdec %d' % m, 'from_u8 on 256 bytes, %s' % MODES[m], None))
    words = [0, BOLD, BLINK, BOLD | BLINK, 0xFFFF, 0xFFFF ^ BOLD, 0xFFFF ^ BLINK, 0xFFFF ^ BOLD ^ BLINK, 0x8000, 0x4000, 2, 4, 16]
    words += [rng.randrange(1 << 16) for _ in range(ctx.n(8, 64))]
    for m in range(3):
        for w in words:
            page = rng.choice([0, 0, 1, 2, rng.randrange(1 << 20)])
            cs.append(('attrenc %d %d %d' % (m, w, page), 'run_attrenc %d %d %d' % (m, w, page),
                       'as_u8 on the 16x16 grid, %s, flags %#x' % (MODES[m], w), None))
    for _ in range(ctx.n(300, 5000)):
        m = rng.randrange(3)
        fg = rng.choice([rng.randrange(16), rng.randrange(256), rng.randrange(1 << 32), 1 << 31, (1 << 32) - 1])
        bg = rng.choice([rng.randrange(16), rng.randrange(256), rng.randrange(1 << 32), 1 << 31, (1 << 32) - 1])
        w = rng.randrange(1 << 16); page = rng.choice([0, 1, rng.randrange(1 << 32)])
        cs.append(('attrenc1 %d %d %d %d %d' % (m, fg, bg, w, page), 'run_attrenc1 %d %d %d %d %d' % (m, fg, bg, w, page),
                   'as_u8 on an arbitrary attribute', None))
    for lo in range(0, 256, 16):
        cs.append(('fromcolor %d 16' % lo, 'run_fromcolor %d 16' % lo, 'from_color fg %d..%d x all bg' % (lo, lo + 15), None))
    # setters/getters on flag words: all 65536 in the thorough tier; quick: words 0..511 and 15 seeded 512-word windows
    # (the attribute domain of the property itself only needs the bold and blink bits, covered by every window)
    if ctx.thorough or ctx.escalated:
        wins = [(lo, 4096) for lo in range(0, 1 << 16, 4096)]
    else:
        wins = [(0, 512)] + [(512 * k, 512) for k in sorted(rng.sample(range(1, 128), 15))]
    for lo, n in wins:
        cs.append(('flags %d %d' % (lo, n), 'run_flags %d %d' % (lo, n), 'bold/blink setters+getters on flag words %d..%d' % (lo, lo + n - 1), None))
    tch = table_chars(ctx)
    near = sorted({y for x in tch for y in (x - 1, x, x + 1) if is_char(y)})
    for k, name in enumerate(CONVS):
        cs.append(('convto %s 0 256' % name, 'run_convto %d 0 256' % k, 'convert_to_unicode %s codes 0..255' % name, None))
        cs.append(('convto %s 256 512 %d' % (name, rng.randrange(1, 1 << 16)), 'run_convto %d 256 512' % k,
                   'convert_to_unicode %s 256..767 (other attribute)' % name, None))
        cs.append(('convfrom %s 0 768' % name, 'run_convfrom %d 0 768' % k, 'convert_from_unicode %s chars 0..0x2FF' % name, None))
        cs.append(('convfrom %s 0 256 %d' % (name, rng.randrange(1, 1 << 16)), 'run_convfrom %d 0 256' % k,
                   'convert_from_unicode %s chars 0..255 (other font page)' % name, None))
        for i in range(0, len(near), 256):
            part = near[i:i + 256]
            cs.append(('convfroml %s %s' % (name, ' '.join(map(str, part))), 'run_convfroml %d [%s]' % (k, '; '.join(map(str, part))),
                       'convert_from_unicode %s on table characters and neighbours' % name, None))
        far = [rng.choice([rng.randrange(0x110000), rng.randrange(0x3000), 0xD7FF, 0xE000, 0x10FFFF, 0xFFFF, 0x10000]) for _ in range(ctx.n(128, 2048))]
        far = [x for x in far if is_char(x)]
        cs.append(('convfroml %s %s' % (name, ' '.join(map(str, far))), 'run_convfroml %d [%s]' % (k, '; '.join(map(str, far))),
                   'convert_from_unicode %s on far characters' % name, None))
        cs.append(('convtol %s %s' % (name, ' '.join(map(str, far))), 'run_convtol %d [%s]' % (k, '; '.join(map(str, far))),
                   'convert_to_unicode %s on far characters' % name, None))
        if name != 'petscii':
            # whole char domain; the model is the identity off the reverse-map keys / past the table (theorems
            # from_unicode_off_keys, to_unicode_beyond_table), so its non-identity set is computed from those
            cs.append(('convnonid %s from 0' % name, 'run_nonid_from_keys %d 0' % k,
                       'convert_from_unicode %s: non-identity set over all chars' % name, 'pairs'))
            cs.append(('convnonid %s to 0' % name, 'run_nonid_range %d 0 0 256' % k,
                       'convert_to_unicode %s: non-identity set over all chars' % name, 'pairs'))
        else:
            hi = ctx.n(0x1000, 0x110000)
            for lo in range(0, hi, 0x1000):
                cs.append(('convnonid petscii from %d %d' % (lo, lo + 0x1000), 'run_nonid_range 2 1 %d %d' % (lo, lo + 0x1000),
                           'convert_from_unicode petscii: non-identity set on %#x..' % lo, 'pairs'))
                cs.append(('convnonid petscii to %d %d' % (lo, lo + 0x1000), 'run_nonid_range 2 0 %d %d' % (lo, lo + 0x1000),
                           'convert_to_unicode petscii: non-identity set on %#x..' % lo, 'pairs'))
    return cs

def model_eval(ctx, imports, exprs, weights=None, shards=16, timeout=900):
    """Same contract as ctx.model, but the coqc shards write to files instead of pipes.  ctx.model starts
    its shards in parallel and then reads them one after the other with communicate(); with several
    hundred thousand integers of output every shard but the one being read blocks on a full 64 KB pipe, so
    the run is sequential in effect (68 s here instead of ~6 s).  Workaround local to this plug-in; the
    file layout, the vm_compute evaluation and the output parser are those of the driver."""
    import os, re, subprocess
    from vlib import driver
    cdir = os.path.join(driver.COQ, 'Cases')
    os.makedirs(cdir, exist_ok=True)
    n = len(exprs)
    weights = weights or [1] * n
    shards = max(1, min(shards, n))
    load = [0] * shards; idxs = [[] for _ in range(shards)]
    for i in sorted(range(n), key=lambda i: -weights[i]):
        s = load.index(min(load)); idxs[s].append(i); load[s] += weights[i]
    out = [None] * n
    procs = []
    for s in range(shards):
        idx = sorted(idxs[s])
        if not idx: continue
        path = os.path.join(cdir, '%s_m%d.v' % (ctx.pid, s))
        with open(path, 'w') as f:
            f.write('From Coq Require Import NArith ZArith List String.\nImport ListNotations.\n')
            f.write(imports + '\nSet Printing Width 1000000.\nSet Printing Depth 1000000.\n')
            for i in idx:
                f.write('Eval vm_compute in (%s).\n' % exprs[i])
        of = open(path[:-2] + '.out', 'w')
        p = subprocess.Popen(['coqc', '-noglob', '-Q', driver.COQ, 'IE', path], stdout=of, stderr=subprocess.STDOUT, cwd=driver.COQ)
        procs.append((p, idx, path, of))
    ctx.model_errors = []
    for p, idx, path, of in procs:
        try:
            p.wait(timeout=timeout)
        except subprocess.TimeoutExpired:
            p.kill(); p.wait()
        of.close()
        with open(path[:-2] + '.out', errors='replace') as f: o = f.read()
        vals = []; cur = None
        for line in o.splitlines():
            if line.startswith('     = '): cur = [line[7:]]
            elif line.startswith('     : '):
                if cur is not None: vals.append(' '.join(cur)); cur = None
            elif cur is not None: cur.append(line)
        if p.returncode != 0 or len(vals) != len(idx):
            ctx.model_errors.append(o[-2000:])
        for k, i in enumerate(idx):
            if k < len(vals):
                out[i] = [int(x) for x in re.findall(r'-?\d+', vals[k])]
        try: os.remove(path[:-2] + '.out')
        except OSError: pass
    return out

def pairs(v):
    return sorted({(v[i], v[i + 1]) for i in range(0, len(v) - 1, 2)})

def correspondence(ctx):
    cs = corr_cases(ctx)
    impl = ctx.impl([c[0] for c in cs], per_case_timeout=120)
    model = model_eval(ctx, IMPORTS, [c[1] for c in cs], weights=[WEIGHT.get(c[0].split()[0], 1) for c in cs])
    dis = []; elements = 0; dist = {}
    for (case, expr, label, post), r, m in zip(cs, impl, model):
        kind = case.split()[0]
        dist[kind] = dist.get(kind, 0) + 1
        if r is None or r[0] != 'ok' or m is None:
            dis.append({'case': case[:200], 'what': label, 'impl': r if r is None or r[0] != 'ok' else 'ok', 'model': None if m is None else 'ok'})
            continue
        a, b = r[1], m
        if post == 'pairs':
            a, b = pairs(a), pairs(b)
        elements += max(len(a), 1)
        if a != b:
            if post == 'pairs':
                diff = sorted(set(a) ^ set(b))[:4]
                dis.append({'case': case[:200], 'what': label, 'only_on_one_side': diff})
            else:
                idx = next((i for i, (x, y) in enumerate(zip(a, b)) if x != y), min(len(a), len(b)))
                dis.append({'case': case[:200], 'what': label, 'index': idx, 'impl': a[idx:idx + 4], 'model': b[idx:idx + 4],
                            'lengths': [len(a), len(b)]})
    return {'cases': len(cs), 'disagreements': dis, 'distinct_nontrivial': elements,
            'distribution': {'case_kinds': dist, 'compared_observations': elements,
                             'model_errors': getattr(ctx, 'model_errors', [])[:2]},
            'samples': [cs[0][0], cs[3][0][:80], cs[-1][0][:80]], 'exhaustive': True}

# --------------------------------------------------------------------------- stage S: the property on the real code
def expressible(m, fg, bg, blink):
    """what an 8-bit attribute byte can hold in mode m (written from the format, not from the model):
    4 foreground bits; Ice: 4 background bits, no blink; otherwise 3 background bits and a blink bit"""
    if fg > 15: return False
    if MODES[m] == 'Ice': return bg <= 15 and not blink
    return bg <= 7

def displayed(fg, bold, bg, blink):
    return [fg + 8 if (bold and fg < 8) else fg, bg, int(bool(blink))]

def search_cases():
    cs = []
    cs.append('attrrt 0')                      # regression first: Unlimited, bytes >= 0x80 lost bit 7 before the fix commit
    cs += ['attrrt 1', 'attrrt 2']
    for m in range(3):
        for blink in (0, 1):
            for bold in (0, 1):
                cs.append('attrencdec %d %d %d' % (m, blink, bold))
    cs.append('fromcolorrt')
    cs += ['cprt cp437', 'cprt atascii']
    for name in CONVS:
        cs.append('typed %s %s' % (name, ' '.join(map(str, TYPED))))
    return cs

def check_case(case, r):
    """-> (number of property instances checked, list of failures)"""
    p = case.split()
    kind = p[0]
    if r is None or r[0] != 'ok':
        return 1, [{'signature': 'c18-%s-%s' % (kind, r[0] if r else 'none'), 'input': {'case': case}, 'impl': r,
                    'detail': 'the implementation did not return'}]
    v = r[1]; fails = []
    if kind == 'attrrt':
        m = int(p[1])
        for b in range(256):
            if v[b] != b:
                sig = 'attr-decode-encode-mismatch-%s' % MODES[m]
                if MODES[m] == 'Unlimited' and b >= 0x80 and v[b] == (b & 0x7F): sig = 'C18-unlimited-bit7'
                fails.append({'signature': sig, 'input': {'case': case, 'mode': MODES[m], 'byte': b}, 'impl': v[b], 'expected': b,
                              'detail': 'from_u8(%#04x, %s).as_u8(%s) = %#04x' % (b, MODES[m], MODES[m], v[b])})
        return 256, fails
    if kind == 'attrencdec':
        m, blink, bold = int(p[1]), int(p[2]), int(p[3]); n = 0
        for fg in range(16):
            for bg in range(16):
                if not expressible(m, fg, bg, blink): continue
                n += 1
                o = 4 * (fg * 16 + bg)
                got = displayed(v[o], v[o + 1], v[o + 2], v[o + 3]); want = displayed(fg, bold, bg, blink)
                if got != want:
                    fails.append({'signature': 'attr-encode-decode-mismatch-%s' % MODES[m],
                                  'input': {'case': case, 'mode': MODES[m], 'fg': fg, 'bg': bg, 'blink': blink, 'bold': bold},
                                  'impl': got, 'expected': want,
                                  'detail': 'attribute fg %d bg %d blink %d bold %d encoded and decoded in %s shows [fg,bg,blink] = %r' % (fg, bg, blink, bold, MODES[m], got)})
        return n, fails
    if kind == 'fromcolorrt':
        for i in range(1, len(v) - 2, 3):
            fg, bg, got = v[i:i + 3]
            want = (fg & 15) | ((bg & 15) << 4)
            fails.append({'signature': 'from_color-byte-mismatch', 'input': {'case': case, 'fg': fg, 'bg': bg}, 'impl': got, 'expected': want,
                          'detail': 'from_color(%d, %d).as_u8(Blink) = %#04x, expected %#04x (%d mismatches in all)' % (fg, bg, got, want, v[0])})
        return 65536, fails
    if kind == 'cprt':
        n = 256 if p[1] == 'cp437' else 128
        for c in range(n):
            if v[c] != c:
                fails.append({'signature': '%s-code-roundtrip-mismatch' % p[1], 'input': {'case': case, 'converter': p[1], 'code': c},
                              'impl': v[c], 'expected': c, 'detail': '%s code %d -> unicode -> code gives %d' % (p[1], c, v[c])})
        return n, fails
    if kind == 'typed':
        chars = list(map(int, p[2:]))
        for i, ch in enumerate(chars):
            code, back = v[2 * i], v[2 * i + 1]
            if back != ch or not (0 <= code < 256):
                fails.append({'signature': 'typed-roundtrip-mismatch-%s' % p[1], 'input': {'case': 'typed %s %d' % (p[1], ch), 'converter': p[1], 'char': ch},
                              'impl': [code, back], 'expected': ch,
                              'detail': '%s: typed %r -> code %d -> %d' % (p[1], chr(ch), code, back)})
        return len(chars), fails
    return 0, []

def search(ctx, broken):
    cs = search_cases()
    impl = ctx.impl(cs, per_case_timeout=60)
    failures = []; n = 0
    for c, r in zip(cs, impl):
        k, f = check_case(c, r)
        n += k; failures += f
    failures.sort(key=lambda f: (f['signature'], json.dumps(f['input'], sort_keys=True)))
    return {'cases': n, 'failures': failures, 'distinct_nontrivial': n, 'harness_calls': len(cs),
            'regression_inputs': ['from_u8(0x80, Unlimited).as_u8(Unlimited) (C18-unlimited-bit7, fixed)'],
            'samples': [cs[0], cs[3], cs[-1][:60]]}

# --------------------------------------------------------------------------- replay
def replay(ctx, body):
    from vlib import driver
    inp = body.get('input')
    print('replay', ID, json.dumps(inp))
    if not (isinstance(inp, dict) and 'case' in inp):
        print(json.dumps(body, indent=1)); return 1
    ok, out = driver.stage_build()
    if not ok:
        print(out[-2000:]); return 2
    case = inp['case']
    r = ctx.impl([case])[0]
    n, fails = check_case(case, r)
    # narrow to the recorded element when there is one
    keys = [k for k in ('byte', 'fg', 'bg', 'code', 'char') if k in inp]
    mine = [f for f in fails if all(f['input'].get(k) == inp[k] for k in keys)]
    print('implementation:', r if r is None or r[0] != 'ok' else ('ok (%d values)' % len(r[1])))
    for f in (mine or fails)[:5]:
        print('  property fails:', f['detail'], '| expected', f['expected'])
    p = case.split()
    expr = None
    if p[0] == 'attrrt' and 'byte' in inp:
        expr = ['map Z.of_N [Model.Attr.as_u8 (Model.Attr.from_u8 %d (mode_of %s)) (mode_of %s)]' % (inp['byte'], p[1], p[1])]
    elif p[0] == 'typed' and 'char' in inp:
        k = CONVS.index(p[1])
        expr = ['run_convfroml %d [%d]' % (k, inp['char'])]
    elif p[0] == 'cprt' and 'code' in inp:
        k = CONVS.index(p[1])
        expr = ['run_convto %d %d 1' % (k, inp['code'])]
    if expr:
        m = ctx.model('From Coq Require Import ZArith.\nFrom IE Require Import Model.Attr Model.Codepage Run.RunC18.\nLocal Open Scope N_scope.', expr)
        print('model:', m[0])
    print('property holds on this input' if not (mine or fails) else 'property violated on this input')
    return 0 if not (mine or fails) else 1

LEVEL_TEXT = ('Machine-checked proof (Coq, closed under the global context) over the complete domains the property names: '
              'as_u8(from_u8(b, m), m) = b for all 256 bytes in all three modes; for EVERY TextAttribute (any u32 colours, flag word, font page) '
              'that is expressible in a mode, encode-then-decode shows the same foreground (bold folded), background and blink, and the '
              'hypothesis is proved to be exactly the image of from_u8 (iff); from_color agrees with the byte fg | bg << 4 for all u8 x u8; '
              'CP437 code -> Unicode -> code is the identity on all 256 codes (and Unicode -> code -> Unicode on all 256 table characters), '
              'ATASCII on its 128 base codes (bound shown tight), and a typed letter, digit or space converts to a one-byte code and back '
              'for all five converters (CP437, ATASCII, PETSCII, Viewdata, Mode7). Flag constants, the default attribute and all tables with '
              'the key ranges of their reverse maps are re-extracted from the Rust source on every run; the hand-written function bodies are '
              'compared with the real functions on every element of their finite domains on every run (exhaustive correspondence), and the '
              'four table converters additionally over the whole char domain. The theorems are about the code after one fix commit '
              '(as_u8 now writes the blink bit in IceMode::Unlimited; before, 128 bytes lost bit 7). Full level.')
LEVEL_NOTE = ('Trusted: Coq kernel + vm_compute; the python translator (tokenizer, literal parser, template matcher); HashMap semantics '
              '(newest insertion wins); the exhaustive differential run that ties the hand-written leaf models to the code; no axioms.')
TECHNIQUE = 'Coq proof by complete vm_compute sweeps of finite domains lifted with nrange_forallb, structural induction for off-table behaviour; translator tie for tables/constants, exhaustive differential tie for leaf functions'
