"""C06 — XBin compression is transparent and conforms to the XBin specification (DESIGN.md section 7, C06)."""
import itertools, json

ID = 'C06'
GENERATORS = ['gen_xbin', 'gen_codepage', 'gen_formats']   # the last two: C05's file-level model, used by the whole-file theorems (extension)
COQ_TARGETS = ['Props/C06.vo', 'Run/RunC06.vo']
PROPS_MODULE = 'Props.C06'
THEOREMS = ['compress_with_sound', 'compress_sound', 'compress_row_runs', 'compress_output_is_bytes',
            'compress_fails_iff_plain_fails', 'reader_refines_spec', 'impl_decoder_agrees_with', 'impl_decoder_agrees',
            'compressed_load_positions', 'count_length_no_overflow', 'impl_decoder_agrees_refuted_before_fix',
            # extension: whole files (composition with C05's file level and C02's loader model)
            'compressed_file_decodes_as_uncompressed_file', 'compressed_file_conforms_to_spec', 'reader_models_agree']
SWEEP_LEMMAS = ['XBinProofs.header_sweep (256 run bytes: the reader\'s mask split of Gen/XBinConst.v against the specification\'s bit fields)',
                'XBinProofs.hdr_sweep (4 run types x 64 counts: the writer\'s run byte against the specification\'s bit fields)',
                'XBinProofs.enc_mask_sweep (256 attribute bytes: encode_attr stays a byte with and without the page bit)']
TRUSTED = ['Coq 8.16.1 kernel + vm_compute (finite sweeps, model evaluation); no axioms (Print Assumptions: closed)',
           'translator/gen_xbin.py + vlib/rustsrc.py: tokenizer, template matcher for encode_attr / decode_char, constant extraction',
           'hand transcription of compress_backtrack / count_length / read_data_compressed / read_data_uncompressed into Model/XBin.v, '
           'tied on every run by stage C (byte-for-byte writer output, cell-for-cell loader output)',
           'reading of doc/FileFormats/x_bin.htm into xb_spec_row (Coq) and, separately, into the python decoder of the search stage',
           'harness/src/c06.rs (header/palette/font sizes computed from the header flags to cut out the data section)']
UNMODELLED = ['XBin header, palette and font blocks are C05\'s model (Model/C05XBin.v, Model/C05XBinC.v); the whole-file theorems compose with it and stage C runs whole compressed files '
              'through it (byte for byte, loaded buffer cell for cell); the SAUCE record is C11\'s; the search stage checks that only a SAUCE record follows the last row',
              'Buffer::get_char layer compositing and ColorOptimizer::optimize (a row is the list of cells the writer reads); the search stage runs with and without the optimiser',
              'Layer::set_char / crop_loaded_file: the readers are modelled as traces of set_char calls, equal traces give equal pictures whatever set_char does',
              'i32 overflow of Position (needs > 2^31 cells)']
ASSUMPTIONS = ['fonts = sorted set of font pages in use (analyze_font_usage); the theorems hold for every fonts list',
               'u8 arithmetic on run_count is exact: proved (1 <= run_count <= 64 is part of the invariant; count_length_no_overflow)']
RULE = ('buffers w x h (w 1..200 biased to 1,2,3,4,5,63,64,65,66,127,128,129,130,200; h 1..30), ice mode Unlimited/Blink/Ice, rows built from '
        'run-structured segments (identical cells, same character, same attribute, unrelated; lengths biased to 1..5 and 60..70) over '
        'small alphabets (3 chars x 3 attrs x 2 pages; attributes that differ for Rust equality but encode to the same byte; font pages {0,1}, {0,5}, {3,7}, {4}) '
        'and over the full byte range; a few characters above 255 (error path). A case is non-trivial when the buffer has at least 2 cells; '
        'distinct = distinct (options, cells). Exhaustive sweeps (rows packed 1500 to a buffer, the compressor restarts on every row): search quick '
        'width <= 3 over the 18 symbols and <= 6 over 2 attrs x 2 pages; search thorough width <= 5 over the 18 symbols, <= 8 over 2 chars x 2 attrs, '
        '<= 10 over 2 attrs x 2 pages; correspondence thorough width <= 4 over the 18 symbols.')

INVISIBLE = (32, 7, 0, 32768, 0)
SPECIAL_W = [1, 2, 3, 4, 5, 6, 7, 63, 64, 65, 66, 127, 128, 129, 130, 200]
ALPHA18 = [(c, f, b, 0, p) for c in (65, 66, 32) for (f, b) in ((7, 0), (7, 1), (4, 2)) for p in (0, 1)]
ALPHA4 = [(c, f, 0, 0, 0) for c in (65, 66) for f in (7, 2)]
ALPHA4P = [(65, f, 0, 0, p) for f in (7, 2) for p in (0, 1)]
# attributes that are different for `==` but encode to the same byte, and vice versa
TRICKY = [(65, 7, 0, 0, 0), (65, 7, 0, 16, 0), (65, 23, 0, 0, 0), (65, 7, 16, 0, 0), (66, 7, 0, 0, 0), (66, 7, 0, 16, 1),
          (65, 7, 0, 0, 1), (65, 15, 0, 0, 0), (65, 7, 0, 1, 0), (65, 7, 8, 0, 0), (65, 7, 0, 8, 0)]

# ---------------------------------------------------------------------------------------------------------------
def cell_hex(c):
    return '%04x%02x%02x%02x%02x' % (c[0], c[1] & 255, c[2] & 255, c[3] & 255, c[4] & 255)

def case_str(b):
    return 'xb %d %d %d %d %d %s' % (b['ice'], b['lossless'], b['sauce'], b['w'], b['h'],
                                     ''.join(cell_hex(c) for r in b['rows'] for c in r))

def parse_case(s):
    p = s.split()
    ice, lossless, sauce, w, h = map(int, p[1:6])
    hx = p[6]
    cells = []
    for i in range(0, len(hx), 12):
        v = [int(hx[i:i+4], 16)] + [int(hx[i+4+2*k:i+6+2*k], 16) for k in range(4)]
        cells.append(tuple(v))
    if len(cells) != w * h: raise ValueError('truncated case')
    rows = [cells[y*w:(y+1)*w] for y in range(h)]
    return {'ice': ice, 'lossless': lossless, 'sauce': sauce, 'w': w, 'h': h, 'rows': rows}

def fonts_of(b):
    return sorted({c[4] for r in b['rows'] for c in r})

def remap_pages(alpha, pages):
    return [(c[0], c[1], c[2], c[3], pages[c[4] % len(pages)]) for c in alpha]

def gen_row(rng, w, alpha, rand_cell):
    row = []
    while len(row) < w:
        kind = rng.random()
        r = rng.random()
        ln = rng.randint(1, 5) if r < 0.55 else (rng.randint(60, 70) if r < 0.8 else rng.randint(1, 140))
        base = rand_cell()
        if kind < 0.3:
            seg = [base] * ln
        elif kind < 0.5:      # same character, attributes vary
            seg = [(base[0],) + rand_cell()[1:] for _ in range(ln)]
        elif kind < 0.7:      # same attribute, characters vary
            seg = [(rand_cell()[0],) + base[1:] for _ in range(ln)]
        elif kind < 0.8:      # same everything but the font page
            seg = [base[:4] + (rand_cell()[4],) for _ in range(ln)]
        else:
            seg = [rand_cell() for _ in range(ln)]
        row += seg
    return row[:w]

def gen_buffer(rng, max_cells=2500, allow_big_char=True, lossless=1):
    r = rng.random()
    w = rng.choice(SPECIAL_W) if r < 0.6 else rng.randint(1, 200)
    h = rng.randint(1, 30)
    while w * h > max_cells and h > 1:
        h = max(1, h // 2)
    ice = rng.randrange(3)
    mode = rng.random()
    pages = rng.choice([[0, 1], [0, 1], [0, 1], [0], [0, 5], [3, 7], [4]])
    if mode < 0.45:
        alpha = remap_pages(ALPHA18, pages)
        rand_cell = lambda: rng.choice(alpha)
    elif mode < 0.6:
        alpha = remap_pages(TRICKY, pages)
        rand_cell = lambda: rng.choice(alpha)
    elif mode < 0.75:
        alpha = remap_pages(rng.choice([ALPHA4, ALPHA4P]), pages)
        rand_cell = lambda: rng.choice(alpha)
    else:
        rand_cell = lambda: (rng.randrange(256), rng.randrange(16), rng.randrange(16), rng.choice([0, 0, 1, 8, 9]), rng.choice(pages))
        alpha = None
    rows = [gen_row(rng, w, alpha, rand_cell) for _ in range(h)]
    if allow_big_char and rng.random() < 0.04:
        y, x = rng.randrange(h), rng.randrange(w)
        c = rows[y][x]
        rows[y][x] = (rng.choice([256, 257, 0x2588, 0x3FF]),) + c[1:]
    return {'ice': ice, 'lossless': lossless, 'sauce': 0, 'w': w, 'h': h, 'rows': rows}

REGRESSION = [
    # the row of DESIGN section 8 "C06 xb-full-run-fontpage": pages 0000 1111, same character and colours (fixed by a `fix:` commit)
    {'ice': 2, 'lossless': 1, 'sauce': 0, 'w': 8, 'h': 1, 'rows': [[(65, 7, 0, 0, p) for p in (0, 0, 0, 0, 1, 1, 1, 1)]]},
    {'ice': 1, 'lossless': 1, 'sauce': 0, 'w': 5, 'h': 2, 'rows': [[(32, 7, 1, 0, p) for p in (1, 1, 0, 0, 1)], [(32, 7, 1, 0, p) for p in (0, 1, 0, 1, 0)]]},
    {'ice': 0, 'lossless': 0, 'sauce': 1, 'w': 8, 'h': 1, 'rows': [[(65, 7, 0, 0, p) for p in (0, 0, 0, 0, 1, 1, 1, 1)]]},
    {'ice': 2, 'lossless': 1, 'sauce': 0, 'w': 130, 'h': 1, 'rows': [[(65, 7, 0, 0, 0)] * 100 + [(65, 7, 0, 0, 1)] * 30]},
]

def directed_run_limit_rows():
    """rows that sit on the 64-cell run limit of every run type: L cells that differ from both neighbours in character
    AND attribute (an uncompressed run), then a pair sharing the character / the attribute / everything, then a tail;
    likewise L-cell character-, attribute- and full runs followed by a cell that breaks the run in one field only"""
    out = []
    def diff(i): return (65 + i % 26, 1 + i % 7, (i * 3) % 8, 0, 0)
    for L in (62, 63, 64, 65, 66, 127, 128, 129):
        for pair in ('char', 'attr', 'full', 'none'):
            row = [diff(i) for i in range(L)]
            a = diff(L)
            b = {'char': (a[0], a[1] + 1, a[2], 0, 0), 'attr': (a[0] + 1, a[1], a[2], 0, 0), 'full': a, 'none': diff(L + 1)}[pair]
            row += [a, b, diff(L + 3), diff(L + 4)]
            out.append({'ice': 2, 'lossless': 1, 'sauce': 0, 'w': len(row), 'h': 1, 'rows': [row]})
        for kind in ('char', 'attr', 'full'):
            base = (66, 3, 1, 0, 0)
            if kind == 'char': run = [(66, 1 + i % 7, i % 8, 0, 0) for i in range(L)]
            elif kind == 'attr': run = [(65 + i % 26, 3, 1, 0, 0) for i in range(L)]
            else: run = [base] * L
            for brk in ((66, 3, 1, 0, 0), (67, 3, 1, 0, 0), (66, 4, 1, 0, 0), (67, 5, 2, 0, 0)):
                row = [diff(0)] + run + [brk, brk, diff(5)]
                out.append({'ice': 2, 'lossless': 1, 'sauce': 0, 'w': len(row), 'h': 1, 'rows': [row]})
    return out

def exhaustive_buffers(alpha, wmax, two_fonts, chunk=1500):
    """generator: every row of width 1..wmax over alpha, packed as rows of buffers (the compressor restarts on every
    row); a last sentinel row keeps both font pages in use in every buffer"""
    def mk(rows, w):
        if two_fonts:
            if w > 1: rows = rows + [[(90, 7, 0, 0, 1)] * (w - 1) + [(90, 7, 0, 0, 0)]]
            else: rows = rows + [[(90, 7, 0, 0, 1)], [(90, 7, 0, 0, 0)]]
        return {'ice': 2, 'lossless': 1, 'sauce': 0, 'w': w, 'h': len(rows), 'rows': rows}
    for w in range(1, wmax + 1):
        rows = []
        for t in itertools.product(alpha, repeat=w):
            rows.append(list(t))
            if len(rows) == chunk:
                yield mk(rows, w); rows = []
        if rows: yield mk(rows, w)

# ---------------------------------------------------------------------------------------------------------------
# implementation observation (harness kind `xb`)
def parse_obs(b, r):
    """-> dict(sc, su, lc, lu, c: {w,h,data,cells}, u: {...})"""
    v = r[1]
    o = {'sc': v[0], 'su': v[1]}
    if v[0] or v[1] or len(v) == 2:
        return o
    o['lc'], o['lu'] = v[2], v[3]
    i = 4
    n = b['w'] * b['h']
    for key, ok in (('c', v[2] == 0), ('u', v[3] == 0)):
        d = {'w': v[i], 'h': v[i+1]}
        ln = v[i+2]
        d['data'] = v[i+3:i+3+ln]
        i += 3 + ln
        if ok:
            d['cells'] = [tuple(v[i+5*k:i+5*k+5]) for k in range(n)]
            i += 5 * n
        o[key] = d
    return o

# ---------------------------------------------------------------------------------------------------------------
# the search stage's own XBin decoder, from doc/FileFormats/x_bin.htm (independent of the Coq model)
class SpecError(Exception):
    def __init__(self, sig, detail):
        Exception.__init__(self, detail); self.sig = sig; self.detail = detail

def spec_decode(data, w, h):
    """-> (rows of (char, attr) pairs, rest, run lengths); raises SpecError"""
    o = 0
    rows = []; runs = []
    for y in range(h):
        row = []
        while len(row) < w:
            if o >= len(data): raise SpecError('xb-truncated', 'row %d: data ends after %d of %d cells' % (y, len(row), w))
            t, n = data[o] >> 6, (data[o] & 63) + 1
            o += 1
            if not 1 <= n <= 64: raise SpecError('xb-run-length', 'run of %d' % n)
            if len(row) + n > w:
                raise SpecError('xb-run-crosses-row', 'row %d: run of %d cells at column %d, width %d' % (y, n, len(row), w))
            need = (2 * n, n + 1, n + 1, 2)[t]
            if o + need > len(data): raise SpecError('xb-truncated', 'row %d: run payload beyond the end of the data' % y)
            p = data[o:o+need]; o += need
            if t == 0: row += [(p[2*k], p[2*k+1]) for k in range(n)]
            elif t == 1: row += [(p[0], a) for a in p[1:]]
            elif t == 2: row += [(c, p[0]) for c in p[1:]]
            else: row += [(p[0], p[1])] * n
            runs.append(n)
        rows.append(row)
    return rows, data[o:], runs

def tail_ok(tail):
    """nothing but the optional SAUCE record (EOF char + 128-byte record, no comment block here) follows"""
    if not tail: return True
    return len(tail) == 129 and tail[0] == 0x1A and bytes(tail[1:8]) == b'SAUCE00'

def oracle(b, r):
    """property C06 on one implementation observation -> None or failure dict"""
    def fail(sig, detail, extra=None):
        return {'signature': sig, 'input': case_str(b), 'impl': (r[0], r[1][:40]) if r and r[0] == 'ok' else r, 'detail': detail, 'expected': extra}
    if r is None or r[0] != 'ok':
        return fail('xb-writer-%s' % (r[0] if r else 'none'), 'saving or loading died: %r' % (r,))
    o = parse_obs(b, r)
    if o['sc'] != o['su']:
        return fail('xb-save-status-differs', 'compress=true returned %s, compress=false returned %s' % (('Ok', 'Err')[o['sc']], ('Ok', 'Err')[o['su']]))
    if o['sc']:
        return None            # both refuse (character above 255)
    w, h = b['w'], b['h']
    two = len(fonts_of(b)) == 2
    du = o['u']['data']
    if len(du) < 2 * w * h:
        return fail('xb-uncompressed-short', 'uncompressed data section has %d bytes for %dx%d' % (len(du), w, h))
    plain = [[(du[2*(y*w+x)], du[2*(y*w+x)+1]) for x in range(w)] for y in range(h)]
    if not tail_ok(du[2*w*h:]):
        return fail('xb-trailing-bytes', 'uncompressed file: %d unexpected bytes after the image' % len(du[2*w*h:]))
    try:
        rows, tail, runs = spec_decode(o['c']['data'], w, h)
    except SpecError as e:
        return fail(e.sig, e.detail)
    if not tail_ok(tail):
        return fail('xb-trailing-bytes', '%d bytes follow the last row of the compressed image: %r' % (len(tail), tail[:16]))
    if rows != plain:
        for y in range(h):
            for x in range(w):
                if rows[y][x] != plain[y][x]:
                    a, p = rows[y][x], plain[y][x]
                    only_page = two and a[0] == p[0] and (a[1] ^ p[1]) == 8
                    return fail('xb-full-run-fontpage' if only_page else 'xb-compressed-cells-differ',
                                'cell (%d,%d): compressed stream decodes to %r, uncompressed stream holds %r' % (x, y, a, p))
    if o['lc'] or o['lu']:
        return fail('xb-load-error', 'from_bytes failed: compressed %d uncompressed %d' % (o['lc'], o['lu']))
    if (o['c']['w'], o['c']['h']) != (o['u']['w'], o['u']['h']):
        return fail('xb-load-size-differs', 'compressed loads as %dx%d, uncompressed as %dx%d' % (o['c']['w'], o['c']['h'], o['u']['w'], o['u']['h']))
    cc, cu = o['c']['cells'], o['u']['cells']
    if cc != cu:
        k = next(i for i in range(len(cc)) if cc[i] != cu[i])
        only_page = cc[k][:4] == cu[k][:4]
        return fail('xb-full-run-fontpage' if only_page else 'xb-load-differs',
                    'cell (%d,%d): loaded from compressed %r, from uncompressed %r (ch fg bg attr page)' % (k % w, k // w, cc[k], cu[k]))
    return None

# ---------------------------------------------------------------------------------------------------------------
IMPORTS = 'From IE Require Import Run.RunC06.\nLocal Open Scope N_scope.'

def model_expr(b):
    rows = '; '.join('[' + ';'.join('%d;%d;%d;%d;%d' % c for c in r) + ']' for r in b['rows'])
    return 'run_xb %d [%s] [%s]' % (b['ice'], ';'.join(map(str, fonts_of(b))), rows)

def parse_model(m):
    o = {'sc': m[0], 'su': m[1]}
    if m[0] or m[1]: return o
    i = 2
    n = m[i]; o['cb'] = m[i+1:i+1+n]; i += 1 + n
    n = m[i]; o['pb'] = m[i+1:i+1+n]; i += 1 + n
    o['outcome'] = m[i]; i += 1
    for key in ('tc', 'tu'):
        n = m[i]; i += 1
        o[key] = [tuple(m[i+7*k:i+7*k+7]) for k in range(n)]
        i += 7 * n
    return o

def picture(trace, w, h):
    """Layer::set_char semantics on a w x h layer: writes outside are ignored, the last write wins, untouched = invisible"""
    g = {}
    for t in trace:
        if 0 <= t[0] < w and 0 <= t[1] < h: g[(t[0], t[1])] = tuple(t[2:])
    return [g.get((x, y), INVISIBLE) for y in range(h) for x in range(w)]

def compare(b, r, m):
    """implementation observation vs model observation -> None or text"""
    if r is None or r[0] != 'ok': return 'implementation: %r' % (r,)
    if m is None: return 'model evaluation failed'
    o = parse_obs(b, r); mo = parse_model(m)
    if (o['sc'], o['su']) != (mo['sc'], mo['su']): return 'save status: impl %r model %r' % ((o['sc'], o['su']), (mo['sc'], mo['su']))
    if o['sc'] or o['su']: return None
    if o['c']['data'] != mo['cb']: return 'compressed bytes differ: impl %r model %r' % (o['c']['data'][:60], mo['cb'][:60])
    if o['u']['data'] != mo['pb']: return 'uncompressed bytes differ: impl %r model %r' % (o['u']['data'][:60], mo['pb'][:60])
    if o['lc'] or o['lu'] or mo['outcome']: return 'load outcome: impl %r model %r' % ((o['lc'], o['lu']), mo['outcome'])
    w, h = b['w'], b['h']
    if o['c']['cells'] != picture(mo['tc'], w, h): return 'picture loaded from the compressed file differs from the model reader'
    if o['u']['cells'] != picture(mo['tu'], w, h): return 'picture loaded from the uncompressed file differs from the model reader'
    return None

def par_model(ctx, exprs, groups=14, timeout=1500):
    """ctx.model shards by the number of expressions (50 per coqc); a C06 case is a whole buffer, so split the list
    ourselves and evaluate the groups concurrently (work-around inside the plug-in, the driver is untouched)"""
    import copy, threading, resource
    # printing an observation of ~10^5 numbers overflows coqc's default 8 MiB stack: raise the soft limit for our children
    soft, hard = resource.getrlimit(resource.RLIMIT_STACK)
    want = 1 << 30
    if hard != resource.RLIM_INFINITY: want = min(want, hard)
    if soft != resource.RLIM_INFINITY and soft < want:
        resource.setrlimit(resource.RLIMIT_STACK, (want, hard))
    n = len(exprs)
    groups = max(1, min(groups, n // 4 or 1))
    # balance by expression size
    order = sorted(range(n), key=lambda i: -len(exprs[i]))
    buckets = [[] for _ in range(groups)]
    for k, i in enumerate(order): buckets[k % groups].append(i)
    out = [None] * n
    errs = []
    def work(g, idx):
        c = copy.copy(ctx); c.pid = '%s_g%d' % (ID, g)
        r = c.model(IMPORTS, [exprs[i] for i in idx], shards=1, timeout=timeout)
        for i, v in zip(idx, r): out[i] = v
        errs.extend(getattr(c, 'model_errors', []))
    th = [threading.Thread(target=work, args=(g, b)) for g, b in enumerate(buckets) if b]
    for t in th: t.start()
    for t in th: t.join()
    ctx.model_errors = errs
    return out

def leaf_cases():
    cases, exprs = [], []
    for ice in range(3):
        for nf in (1, 2):
            cases.append('xbattr %d %d' % (ice, nf)); exprs.append('run_attr %d %d' % (ice, nf))
        for ext in (0, 1):
            cases.append('xbdec %d %d' % (ice, ext)); exprs.append('run_dec %d %d' % (ice, ext))
    return cases, exprs

def whole_file_cases(ctx):
    """whole XBin files with compress = true (and a few with false) through C05's harness kind and C05's Run module"""
    from props import c05
    rng = ctx.rng
    n = ctx.n(16, 120)
    pics = [c05.gen_pic(rng, 'xb', maxcells=900, maxw=160) for _ in range(n)]
    comps = [0 if k % 8 == 7 else 1 for k in range(n)]
    impl = ctx.impl(['c5rt xb %d 0 %s' % (c, p.args()) for p, c in zip(pics, comps)], per_case_timeout=30)
    exprs = ['run_rt 2 %s false %s' % ('true' if c else 'false', p.coq()) for p, c in zip(pics, comps)]
    model = c05.model_eval(ctx, c05.IMPORTS, ['digest (%s)' % e for e in exprs], [p.w * p.h + 2000 for p in pics], shards=8)
    dis = []
    for p, c, r, m in zip(pics, comps, impl, model):
        a = c05.norm_impl(r, 0)
        if a is None or m is None or c05.digest(a) != m:
            dis.append({'case': ('c5rt xb %d 0 %s' % (c, p.args()))[:400], 'impl': str(a)[:200], 'model': str(m)[:200],
                        'why': 'whole-file digest differs (bytes of Buffer::to_bytes or the buffer loaded from them)'})
    return n, dis

def correspondence(ctx):
    bufs = [dict(b, lossless=1, sauce=0) for b in REGRESSION] + directed_run_limit_rows()[::2]
    target_rows = ctx.n(1500, 6000)
    rows = 0
    while rows < target_rows:
        b = gen_buffer(ctx.rng, max_cells=ctx.n(1500, 3000))
        bufs.append(b); rows += b['h']
    exhaustive_rows = 0
    if ctx.thorough or ctx.escalated:
        ex = list(exhaustive_buffers(ALPHA18, 4, True))
        exhaustive_rows = sum(b['h'] for b in ex)
        bufs += ex
    lc, le = leaf_cases()
    cases = [case_str(b) for b in bufs] + lc
    impl = ctx.impl(cases, per_case_timeout=60)
    model = par_model(ctx, [model_expr(b) for b in bufs] + le)
    dis = []
    for i, b in enumerate(bufs):
        d = compare(b, impl[i], model[i])
        if d: dis.append({'case': cases[i], 'impl': str(impl[i])[:300], 'model': str(model[i])[:300], 'why': d})
    for k in range(len(lc)):
        i = len(bufs) + k
        if impl[i] is None or impl[i][0] != 'ok' or model[i] is None or impl[i][1] != model[i]:
            bad = None
            if impl[i] and impl[i][0] == 'ok' and model[i]:
                bad = next((j for j in range(min(len(model[i]), len(impl[i][1]))) if model[i][j] != impl[i][1][j]), None)
            dis.append({'case': cases[i], 'impl': str(impl[i])[:200], 'model': str(model[i])[:200], 'why': 'leaf sweep differs at index %r' % bad})
    # extension: WHOLE compressed files through the composed model (C05 file level + this compressor + C02's loader model):
    # Buffer::to_bytes("xb", compress) bytes and the buffer Buffer::from_bytes loads, against Run/RunC05.run_rt
    wf_cases, wf_dis = whole_file_cases(ctx)
    dis += wf_dis
    widths = {}
    for b in bufs: widths[b['w']] = widths.get(b['w'], 0) + b['h']
    errs = sum(1 for i in range(len(bufs)) if impl[i] and impl[i][0] == 'ok' and impl[i][1][0])
    return {'cases': len(cases) + wf_cases, 'disagreements': dis,
            'distinct_nontrivial': len({c for c, b in zip(cases, bufs) if b['w'] * b['h'] >= 2}) + len(lc) + wf_cases,
            'distribution': {'rows_by_width': {str(k): v for k, v in sorted(widths.items())}, 'rows': sum(b['h'] for b in bufs),
                             'whole_compressed_files': wf_cases,
                             'exhaustive_rows_w<=4_over_18_symbols': exhaustive_rows, 'buffers_refused_(char>255)': errs,
                             'leaf_sweeps': 'encode_attr: 16x16 colours x bold x blink x page x 3 ice modes x 1|2 fonts; decode_char: 256 bytes x 3 ice modes x 2 font modes',
                             'model_errors': getattr(ctx, 'model_errors', [])[:2]},
            'samples': [cases[0][:300], cases[len(REGRESSION) + 1][:300]],
            'exhaustive': False}

def search(ctx, broken):
    first = []
    # inputs on which model and implementation disagreed come first
    for bk in broken:
        d = bk.get('detail') or {}
        if isinstance(d, dict) and str(d.get('case', '')).startswith('xb '):
            try: first.append(parse_case(d['case']))
            except Exception: pass
    first += REGRESSION + directed_run_limit_rows()
    target_rows = ctx.n(15000, 100000)
    def random_buffers():
        rows = 0
        while rows < target_rows:
            lossless = 1 if ctx.rng.random() < 0.6 else 0
            b = gen_buffer(ctx.rng, max_cells=ctx.n(2500, 6000), allow_big_char=bool(lossless), lossless=lossless)
            if ctx.rng.random() < 0.15: b['sauce'] = 1
            rows += b['h']
            yield b
    if ctx.thorough or ctx.escalated:
        sweeps = [exhaustive_buffers(ALPHA18, 5 if ctx.thorough else 4, True), exhaustive_buffers(ALPHA4, 8, False),
                  exhaustive_buffers(ALPHA4P, 10, True)]
        sweep_text = 'all rows of width <= %d over 18 symbols, <= 8 over 2 chars x 2 attrs, <= 10 over 2 attrs x 2 pages' % (5 if ctx.thorough else 4)
    else:
        sweeps = [exhaustive_buffers(ALPHA18, 3, True), exhaustive_buffers(ALPHA4P, 6, True)]
        sweep_text = 'all rows of width <= 3 over 18 symbols, <= 6 over 2 attrs x 2 pages'
    stream = itertools.chain(first, random_buffers(), *sweeps)
    failures = []; ncases = 0; nrows = 0; ex_rows = 0; distinct = set(); sample = None
    nfirst = len(first)
    while True:
        batch = list(itertools.islice(stream, 256))
        if not batch: break
        cases = [case_str(b) for b in batch]
        impl = ctx.impl(cases, per_case_timeout=120)
        for b, c, r in zip(batch, cases, impl):
            ncases += 1; nrows += b['h']
            if b['w'] * b['h'] >= 2: distinct.add(hash(c))
            if sample is None and ncases > nfirst: sample = c[:300]
            f = oracle(b, r)
            if f and len(failures) < 2000: failures.append(f)
        if len(failures) >= 2000: break
    failures.sort(key=lambda f: len(str(f['input'])))
    for f in failures: f['input'] = f['input'] if len(f['input']) < 20000 else f['input'][:20000]
    return {'cases': ncases, 'failures': failures, 'rows': nrows, 'exhaustive_sweeps': sweep_text,
            'distinct_nontrivial': len(distinct), 'samples': [sample]}

def replay(ctx, body):
    from vlib import driver
    inp = body.get('input')
    print('replay', ID, str(inp)[:200])
    if not (isinstance(inp, str) and inp.startswith('xb ')):
        print(json.dumps(body, indent=1)[:4000]); return 1
    ok, out = driver.stage_build()
    b = parse_case(inp)
    r = ctx.impl([inp], per_case_timeout=120)[0]
    f = oracle(b, r)
    print('implementation:', str(r)[:1500])
    print('oracle (python XBin spec decoder + compressed/uncompressed load compare):', 'holds' if f is None else '%s: %s' % (f['signature'], f['detail']))
    if b['lossless']:
        m = ctx.model(IMPORTS, [model_expr(b)])[0]
        print('model:', str(m)[:1500])
        print('model vs implementation:', compare(b, r, m) or 'agree')
    return 0 if f is None else 1

LEVEL_TEXT = ('Machine-checked proof (Coq, closed under the global context) about a transcription of compress_backtrack, '
              'read_data_compressed and read_data_uncompressed: for every buffer (all widths, heights, cells, ice modes, font sets) '
              'and for EVERY look-ahead heuristic (the count_length comparisons are an arbitrary oracle), the compressed stream is '
              'decoded by an independent decoder written from x_bin.htm into exactly the cells the uncompressed writer stores, row by row, '
              'with every run 1..64 cells, no run crossing a row and no byte left over; the Rust reader agrees with the specification '
              'decoder on every valid stream, so the compressed and the uncompressed file load through the same sequence of set_char '
              'calls (character, colours, blink, font page). The code as pinned violated this (a character+attribute run swallowed a '
              'font-page change); fixed by a one-line `fix:` commit, the old behaviour is kept as a refutation lemma and regression input. '
              'Constants and the two leaf functions encode_attr/decode_char are re-extracted from the source each run; the control '
              'structure is tied by byte-for-byte differential runs. Extension: composed with the file-level model of C05 (header, flags, palette and '
              'font blocks) and the loader model of C02, the statements are also proved for whole FILES: for every picture whose size, palette and '
              'font blocks the format admits (any cells, any one or two font pages) the compressed file exists iff the uncompressed one does, both '
              'load to the same buffer, and the compressed file is header + blocks + exactly one specification-conformant stream with nothing behind it; '
              'whole compressed files are compared with Buffer::to_bytes / from_bytes on every run. The SAUCE record is outside (C11).')
LEVEL_NOTE = ('Trusted: Coq kernel + vm_compute; the hand transcription of the compressor/readers (tied by stage C on every run, exhaustive for '
              'rows of width <= 4 over 18 symbols in the thorough tier); the python constant extractor; the reading of x_bin.htm; no axioms.')
TECHNIQUE = ('Coq proof by induction over the row with a run-state invariant, heuristic abstracted as an oracle; independent specification '
             'decoder; refinement of the Rust reader to the specification decoder; translator tie for constants; differential correspondence')
