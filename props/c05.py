"""C05 — binary art formats (BIN, ADF, XBin, IDF, Tundra) reproduce what was saved (DESIGN.md section 7, C05).

Stage C runs random pictures per the quantifier through the real `Buffer::to_bytes` / `Buffer::from_bytes` and through the
Coq model (Model/C05*.v): file bytes are compared byte for byte, loaded buffers field for field and cell for cell; mutated
files go through load / save / load on both sides.
Stage S states the property on the real code: the round trip itself (size, characters, displayed colours, blink, mode,
embedded palette and fonts), spec-derived decoders for BIN and ADF written here from doc/FileFormats, and re-save
stability on mutated files."""
import json, os, re

ID = 'C05'
GENERATORS = ['gen_codepage', 'gen_formats', 'gen_xbin', 'gen_sauce']   # gen_xbin: C06's codec constants; gen_sauce: C11's record layout (extension)
COQ_TARGETS = ['Props/C05.vo', 'Run/RunC05.vo']
PROPS_MODULE = 'Props.C05'
THEOREMS = ['bin_roundtrip', 'bin_load_total', 'bin_resave', 'adf_roundtrip', 'adf_resave', 'adf_palette_roundtrip',
            'xb_roundtrip_one_font', 'xb_roundtrip_two_fonts', 'xb_resave', 'idf_roundtrip', 'idf_resave',
            'tnd_roundtrip', 'tnd_resave', 'palette63_roundtrip', 'font_block_roundtrip', 'layer_get_after_set',
            'known_1_witness', 'known_1_always_refused', 'known_2_witness',
            'tnd_fixed_loader_agrees', 'xb_fixed_loader_accepts', 'xb_fixed_loader_accepted',
            # extension: XBin whole files with compressed data, re-save of all accepted XBin files, files with SAUCE bytes
            'xb_writer_uncompressed', 'xb_data_sections_load_alike', 'xb_loader_reads_data_section', 'xb_writer_places_data_section',
            'xb_compressed_file_loads_as_plain', 'xb_compressed_file_exists_iff',
            'xb_roundtrip_compressed_one_font', 'xb_roundtrip_compressed_two_fonts',
            'xb_compression_transparent_one_font', 'xb_compression_transparent_two_fonts', 'xb_roundtrip_any_page', 'xb_roundtrip_any_two_pages',
            'xb_compressed_file_spec_conformant',
            'xb_resave_any', 'xb_resave_512', 'known_2_exact', 'known_2_refusal', 'known_2_witness_both_writers',
            'bin_file_roundtrip', 'tnd_file_roundtrip', 'xb_file_roundtrip_one_font', 'xb_file_roundtrip_two_fonts', 'adf_file_roundtrip', 'idf_file_roundtrip', 'tnd_file_resave',
            'idf_wide_contains_idf', 'idf_roundtrip_any_width', 'idf_resave_any_width', 'known_1_exact']
SWEEP_LEMMAS = ['C05BinProofs.from_u8_vis_sweep (256 bytes x 3 modes: a decoded attribute is visible and on font page 0)',
                'C05AdfProofs.six_bit_sweep / expand6_idem_sweep (64 six-bit values, 256 byte values of the u8 expression r << 2 | r >> 4)',
                'C05AdfProofs.ega_offsets_sweep (the generated EGA_COLOR_OFFSETS: 16 distinct indices below 64; EGA_PALETTE has 64 entries)',
                'C05XBinProofs.xb_two_sweep (3 modes x 8 fg x 16 bg x blink x 2 pages: attribute bit 3 as font page in 512-character mode)',
                'C05XBinProofs.xb_flags_decode (the generated XBin flag bits are decoded independently: 16 combinations)',
                'C05XBinProofs.default_font_sweep (the generated default font: 256 glyphs of 16 bytes)',
                'C18 AttrProofs.dec_enc_sweep / enc_dec_sweep / from_u8_shape_sweep (attribute byte codec, reused)',
                'C05XBinCProofs.xb_flagsc_decode (the five generated XBin flag bits incl. FLAG_COMPRESS: 32 combinations)',
                'C05XBinResaveProofs.xb_dec2_sweep (256 attribute bytes x 3 modes: what decode_char stores in 512-character mode is visible, expressible, fg < 8, not bold, page 0 or 1)',
                'C06 XBinProofs.hdr_sweep / header_sweep / enc_mask_sweep (run header fields, reused through impl_decoder_agrees)']

FMTS = ['bin', 'adf', 'xb', 'idf', 'tnd']
FNO = {f: i for i, f in enumerate(FMTS)}
IMPORTS = 'From IE Require Import Model.C05Buf Run.RunC05.\nLocal Open Scope N_scope.'
BOLD, BLINK = 1, 8
DOS = [(0, 0, 0), (0, 0, 170), (0, 170, 0), (0, 170, 170), (170, 0, 0), (170, 0, 170), (170, 85, 0), (170, 170, 170),
       (85, 85, 85), (85, 85, 255), (85, 255, 85), (85, 255, 255), (255, 85, 85), (255, 85, 255), (255, 255, 85), (255, 255, 255)]
EGA_OFFSETS = [0, 1, 2, 3, 4, 5, 20, 7, 56, 57, 58, 59, 60, 61, 62, 63]   # doc: the 16 text colours are DAC registers of these EGA indices

def expand6(c): return ((c << 2) | (c >> 4)) & 255

# --------------------------------------------------------------------------- pictures
def mix(seed, i):
    x = (seed ^ (i * 0x9E3779B1)) & 0xFFFFFFFF
    x ^= x >> 16; x = (x * 0x85EBCA6B) & 0xFFFFFFFF
    x ^= x >> 13; x = (x * 0xC2B2AE35) & 0xFFFFFFFF
    x ^= x >> 16
    return x

def pat_font(k, n):
    return [((i * k + i // 7 + k) & 255) for i in range(n)]

class Pic:
    """w, h, mode (IceMode byte), cells: list of (ch, fg, bg, attr, page) or ('@', seed, chmod, fgn, bgn, mask, pages),
    pal: list of (r,g,b) or None (DOS default), fonts: {slot: (height, ('pat', k) | ('hex', bytes))} or None"""
    def __init__(self, w, h, mode, cells, pal=None, fonts=None):
        self.w, self.h, self.mode, self.cells, self.pal, self.fonts = w, h, mode, cells, pal, fonts

    def cell_list(self):
        if self.cells and self.cells[0] == '@':
            _, seed, chmod, fgn, bgn, mask, pages = self.cells
            out = []
            for i in range(self.w * self.h):
                a = mix(seed, i); b = mix(seed ^ 0x5bd1e995, i)
                if chmod == 0: ch = a & 255
                elif chmod == 1: ch = (a & 255) % 7
                elif chmod == 2: ch = ((a >> 8) & 255) if a & 3 == 0 else 65 + (i // 5 % 3)
                else: ch = 32 + a % 95
                out.append((ch, (a >> 8) % fgn, (a >> 20) % bgn, b & mask, (b >> 16) % pages))
            return out
        return self.cells

    def font_bytes(self, slot):
        h, (kind, v) = self.fonts[slot]
        return h, (pat_font(v, 256 * h) if kind == 'pat' else list(v))

    def palette(self):
        return self.pal if self.pal is not None else DOS

    def args(self):
        if self.cells and self.cells[0] == '@':
            cs = '@' + ','.join(str(x) for x in self.cells[1:])
        else:
            cs = ''.join('%04x%04x%04x%04x%02x' % c for c in self.cells) or '-'
        pal = '-' if self.pal is None else ''.join('%02x%02x%02x' % c for c in self.pal)
        if self.fonts is None: fs = '-'
        else:
            fs = ','.join('%d:%d:%s' % (s, h, ('@%d' % v) if kind == 'pat' else ''.join('%02x' % x for x in v))
                          for s, (h, (kind, v)) in sorted(self.fonts.items()))
        return '%d %d %d %s %s %s' % (self.w, self.h, self.mode, cs, pal, fs)

    def coq(self):
        cells = '(cells_of [' + '; '.join(str(c[0] + (c[1] << 16) + (c[2] << 48) + (c[3] << 80) + (c[4] << 96)) for c in self.cell_list()) + '])'
        pal = 'dflt_pal' if self.pal is None else '[' + '; '.join('(%d, %d, %d)' % c for c in self.pal) + ']'
        if self.fonts is None: fs = 'dflt_fonts'
        else:
            table = {0: '(0, default_font)'}
            for s, (h, (kind, v)) in self.fonts.items():
                table[s] = '(%d, %s)' % (s, ('patf %d %d' % (v, h)) if kind == 'pat' else 'mkf %d [%s]' % (h, '; '.join(map(str, v))))
            fs = '[' + '; '.join(table[s] for s in sorted(table)) + ']'
        return '(mkpic %d%%Z %d%%Z %d %s %s %s)' % (self.w, self.h, self.mode, cells, pal, fs)

    def brief(self):
        return {'w': self.w, 'h': self.h, 'mode': self.mode, 'palette': 'default' if self.pal is None else len(self.pal),
                'fonts': None if self.fonts is None else {s: h for s, (h, _) in self.fonts.items()},
                'cells': (list(self.cells) if self.cells and self.cells[0] == '@' else [list(c) for c in self.cells[:400]])}

    @staticmethod
    def from_brief(d):
        cells = d['cells']
        cells = tuple(cells) if cells and cells[0] == '@' else [tuple(c) for c in cells]
        return Pic(d['w'], d['h'], d['mode'], cells, d.get('pal'), d.get('fontspec'))

def six_bit_palette(rng, n=16):
    return [tuple(expand6(rng.randrange(64)) for _ in range(3)) for _ in range(n)]

def rand_cells16(rng, n, mode, pages=1, fgmax=16, style=None):
    """cells an 8-bit attribute byte can carry in `mode`; styles: random bytes, runs, control-range characters"""
    style = style or rng.choice(['rand', 'rand', 'runs', 'ctrl', 'text'])
    out = []
    prev = None
    for i in range(n):
        if style == 'runs' and prev is not None and rng.random() < 0.7:
            out.append(prev); continue
        if style == 'ctrl': ch = rng.choice([0, 1, 2, 3, 4, 5, 6, 1, 1, rng.randrange(256)])
        elif style == 'text': ch = 32 + rng.randrange(95)
        else: ch = rng.randrange(256)
        fg = rng.randrange(fgmax)
        at = 0
        if mode == 2: bg = rng.randrange(16)
        else:
            bg = rng.randrange(8)
            if rng.random() < 0.3: at |= BLINK
        if style == 'ctrl' and rng.random() < 0.5: fg, bg, at = 0, 0, 0          # the (1, attribute 0) pattern of IDF
        if fgmax == 16 and fg < 8 and rng.random() < 0.15: at |= BOLD            # bold folds into the high-intensity foreground
        prev = (ch, fg, bg, at, rng.randrange(pages))
        out.append(prev)
    return out

def gen_pic(rng, fmt, maxcells=6000, maxw=4096):
    """a picture the format can carry, per the quantifier of the property"""
    if fmt == 'bin':
        w = min(2 * rng.choice([1, 2, 40, 80, 255, rng.randint(1, 255), rng.randint(1, 60)]), maxw - maxw % 2)
        h = rng.choice([1, 1, 2, 10, 25, 26, rng.randint(1, 60)])
        if w * h > maxcells: h = max(1, maxcells // w)
        mode = rng.choice([0, 1, 2])
        return Pic(w, h, mode, rand_cells16(rng, w * h, mode))
    if fmt == 'adf':
        h = rng.choice([1, 2, 10, 24, 25, 26, rng.randint(1, 60)])
        if 80 * h > maxcells: h = max(1, maxcells // 80)
        fonts = {0: (16, ('pat', rng.randrange(1, 255)))} if rng.random() < 0.8 else None
        if fonts and rng.random() < 0.1: fonts = {0: (16, ('hex', [rng.randrange(256) for _ in range(4096)]))}
        return Pic(80, h, 2, rand_cells16(rng, 80 * h, 2), six_bit_palette(rng) if rng.random() < 0.8 else None, fonts)
    if fmt == 'idf':
        w = rng.choice([1, 2, 79, 80, 80, rng.randint(1, 80)])
        h = rng.choice([1, 2, 10, 25, 26, 200, rng.randint(1, 200)])
        if w * h > maxcells: h = max(1, maxcells // w)
        fonts = {0: (16, ('pat', rng.randrange(1, 255)))} if rng.random() < 0.8 else None
        return Pic(w, h, 2, rand_cells16(rng, w * h, 2), six_bit_palette(rng) if rng.random() < 0.8 else None, fonts)
    if fmt == 'xb':
        w = min(rng.choice([1, 2, 80, 80, 160, 255, 256, 257, rng.randint(1, 300)]), maxw)
        h = rng.choice([1, 2, 10, 24, 25, 26, 200, rng.randint(1, 200)])
        if w * h > maxcells: h = max(1, maxcells // w)
        mode = rng.choice([1, 2])
        two = rng.random() < 0.4
        fh = rng.choice([1, 8, 14, 16, 16, 32, rng.randint(1, 32)])
        if two:
            fonts = {0: (fh, ('pat', rng.randrange(1, 255))), 1: (fh, ('pat', rng.randrange(1, 255)))}
            cells = rand_cells16(rng, w * h, mode, pages=2, fgmax=8)
            if not any(c[4] == 1 for c in cells) or not any(c[4] == 0 for c in cells):
                cells = cells[:-1] + [(cells[-1][0], cells[-1][1], cells[-1][2], cells[-1][3], 1 - cells[0][4])] if len(cells) > 1 else cells
                if len({c[4] for c in cells}) < 2: two = False
        if not two:
            fonts = {0: (fh, ('pat', rng.randrange(1, 255)))} if rng.random() < 0.7 else None
            cells = rand_cells16(rng, w * h, mode)
        return Pic(w, h, mode, cells, six_bit_palette(rng) if rng.random() < 0.7 else None, fonts)
    # tnd
    w = min(rng.choice([1, 2, 80, 80, 81, 160, 1000, rng.randint(1, 200)]), maxw)
    h = rng.choice([1, 2, 10, 25, 26, rng.randint(1, 60)])
    if w * h > maxcells: h = max(1, maxcells // w)
    ncol = rng.choice([2, 16, 17, 40, 300] if maxcells > 2000 else [2, 16, 17, 40])
    pal = [tuple(rng.randrange(256) for _ in range(3)) for _ in range(ncol)]
    if rng.random() < 0.5: pal[0] = (0, 0, 0)
    if rng.random() < 0.3: pal[rng.randrange(ncol)] = pal[rng.randrange(ncol)]      # duplicate colours
    style = rng.choice(['rand', 'runs', 'ctrl', 'text'])
    cells = []; prev = None
    for i in range(w * h):
        if style == 'runs' and prev is not None and rng.random() < 0.7: cells.append(prev); continue
        ch = rng.choice([0, 1, 2, 3, 4, 5, 6, rng.randrange(256)]) if style == 'ctrl' else (32 + rng.randrange(95) if style == 'text' else rng.randrange(256))
        if rng.random() < 0.5 and prev is not None: prev = (ch, prev[1], prev[2], 0, 0)
        else: prev = (ch, rng.randrange(ncol), rng.randrange(ncol), 0, 0)
        cells.append(prev)
    return Pic(w, h, 2, cells, pal, None)

def save_opts(rng, fmt):
    """(compress, save_sauce) as the format needs: BIN and Tundra carry their width in the SAUCE record"""
    if fmt in ('bin', 'tnd'): return 0, 1
    if fmt == 'idf': return rng.randrange(2), rng.randrange(2)
    if fmt == 'xb': return rng.randrange(2), rng.randrange(2)     # both data layouts (extension)
    return 0, rng.randrange(2)

# --------------------------------------------------------------------------- parsing harness / model output
def parse_load(v, i):
    if i >= len(v): return None, i
    if v[i] != 1: return ('fail', v[i:i + 2]), len(v)
    i += 1
    d = {}
    (d['w'], d['h'], d['ice'], d['lw'], d['lh'], d['lines'], d['pm'], d['fm'], npal) = v[i:i + 9]; i += 9
    d['pal'] = [tuple(v[i + 3 * k:i + 3 * k + 3]) for k in range(npal)]; i += 3 * npal
    nf = v[i]; i += 1; d['fonts'] = {}
    for _ in range(nf):
        slot, fw, fh, ln, nd = v[i:i + 5]; i += 5
        d['fonts'][slot] = (fw, fh, ln, v[i:i + nd]); i += nd
    n = d['w'] * d['h']
    d['cells'] = [tuple(v[i + 5 * k:i + 5 * k + 5]) for k in range(n)]; i += 5 * n
    return d, i

def parse_rt(v, i=0):
    """-> (bytes or None, load dict | ('fail', ..) | None, next index)"""
    if v[i] != 1: return None, None, len(v)
    n = v[i + 1]; b = v[i + 2:i + 2 + n]
    d, j = parse_load(v, i + 2 + n)
    return b, d, j

SAUCE_ID = [0x1A] + list(b'SAUCE00')

def split_sauce(b):
    """file bytes -> (data, sauce tail or None) for files written by Buffer::to_bytes with save_sauce (no comments)"""
    if len(b) >= 129 and b[-129:-121] == SAUCE_ID: return b[:-129], b[-129:]
    return b, None

def norm_impl(r, sauce):
    """harness result -> comparable list: strip the SAUCE tail from the saved bytes (it carries today's date)"""
    if r is None: return None
    if r[0] == 'panic': return [-1]
    if r[0] == 'err' and 'picture-too-large' in str(r[1]): return [-2]
    if r[0] != 'ok': return [r[0]]
    v = r[1]
    if v[0] != 1: return [0]
    n = v[1]; b = v[2:2 + n]; rest = v[2 + n:]
    data, tail = split_sauce(b)
    if sauce and tail is None: return ['no-sauce-record']
    if not sauce and tail is not None and False: return ['unexpected-sauce']
    if not sauce: data = b
    if rest and rest[0] != 1: rest = [0]
    return [1, len(data)] + data + rest

def norm_model(m):
    return m

def norm_impl_load(r):
    if r is None: return None
    if r[0] != 'ok': return [r[0]]
    return [0] if r[1][0] != 1 else r[1]

def norm_model_load(m):
    if m is None: return None
    if m[0] == -1: return ['panic']
    if m[0] == 0: return [0]
    return m

def digest(l):
    """same function as Run/RunC05.v digest: length, then (sum x, sum i*x, sum i*i*x) per block of 64 values"""
    if l is None: return None
    if any(isinstance(x, str) for x in l): return l
    out = [len(l)]
    for k in range(0, len(l), 64):
        blk = l[k:k + 64]
        out += [sum(blk), sum((i + 1) * x for i, x in enumerate(blk)), sum((i + 1) * (i + 1) * x for i, x in enumerate(blk))]
    return out

def first_diff(a, b):
    if a is None or b is None: return 0
    for i, (x, y) in enumerate(zip(a, b)):
        if x != y: return i
    return min(len(a), len(b))

# --------------------------------------------------------------------------- stage C
def mutate(rng, data, header_len):
    """a mutated copy of the data part of a valid file"""
    d = list(data)
    k = rng.randrange(6)
    if k == 0 and len(d) > header_len:                       # truncate inside the cell data
        d = d[:rng.randrange(header_len, len(d))]
    elif k == 1:                                             # extend
        d += [rng.randrange(256) for _ in range(rng.randrange(1, 40))]
    elif k == 2 and len(d) > header_len:                     # flip bytes in the cell data
        for _ in range(rng.randrange(1, 8)):
            d[rng.randrange(header_len, len(d))] = rng.choice([0, 1, 2, 4, 6, 255, rng.randrange(256)])
    elif k == 3 and len(d) > 12:                             # flip a header byte
        d[rng.randrange(min(len(d), header_len or 12))] = rng.randrange(256)
    elif k == 4 and len(d) > header_len + 4:                 # delete one byte (shifts the pairing)
        del d[rng.randrange(header_len, len(d))]
    return d

def sauce_of(fmt, pic):
    """(coq sauce option, as the loader sees the record the writer appended)"""
    if fmt == 'bin': return 'Some (mkSauce %d%%Z 25%%Z %s)' % (2 * ((pic.w // 2) % 256), 'true' if pic.mode == 2 else 'false')
    if fmt == 'adf': return 'Some (mkSauce %d%%Z %d%%Z %s)' % (pic.w, pic.h, 'true' if pic.mode == 2 else 'false')
    if fmt == 'xb': return 'Some (mkSauce %d%%Z %d%%Z false)' % (pic.w, pic.h)
    if fmt == 'idf': return 'None'
    return 'Some (mkSauce %d%%Z 0%%Z false)' % pic.w

def header_len(fmt, data):
    if fmt == 'bin': return 0
    if fmt == 'adf': return 4289
    if fmt == 'idf': return 12
    if fmt == 'tnd': return 9
    if len(data) < 11: return 0
    n = 11; fl = data[10]; fh = data[9] or 16
    if fl & 1: n += 48
    if fl & 2: n += 256 * fh * (2 if fl & 16 else 1)
    return n

def corr_cases(ctx):
    rng = ctx.rng
    cases = []
    per = ctx.n(36, 300)
    for fmt in FMTS:
        for k in range(per):
            # the model evaluates a row in time quadratic in its width: keep stage C pictures moderate, a few wide ones
            wide = (k % 12 == 5)
            pic = gen_pic(rng, fmt, maxcells=1200, maxw=(1000 if wide else 160))
            comp, sauce = save_opts(rng, fmt)
            if k % 10 == 9:                                  # error branches of the writers
                pic = spoil(rng, fmt, pic)
                if fmt == 'bin' and rng.random() < 0.5: sauce = 0
            cases.append({'kind': 'rt', 'fmt': fmt, 'pic': pic, 'comp': comp, 'sauce': sauce})
    return cases

def spoil(rng, fmt, pic):
    """make the picture unrepresentable in one way (exercises the Err branches and the lossy paths)"""
    k = rng.randrange(6)
    cells = list(pic.cell_list())
    if k == 0 and cells: cells[rng.randrange(len(cells))] = (rng.randrange(256, 2000), 1, 0, 0, 0)        # char > 255
    elif k == 1: return Pic(pic.w, pic.h, rng.choice([0, 1, 2]), cells, pic.pal, pic.fonts)               # other mode
    elif k == 2: return Pic(pic.w, pic.h, pic.mode, cells, (pic.palette() + [(1, 2, 3)])[:rng.choice([3, 17])], pic.fonts)
    elif k == 3 and cells: cells[rng.randrange(len(cells))] = cells[0][:4] + (rng.choice([1, 2, 3]),)     # more font pages
    elif k == 4 and cells: cells = [(c[0], c[1] + 16 * rng.randrange(3), c[2] + 8, c[3], c[4]) for c in cells]  # colours out of range
    elif k == 5:
        w = max(1, pic.w + rng.choice([-1, 1, 2, 81])); n = w * pic.h
        cells = (cells * (n // max(1, len(cells)) + 1))[:n]
        return Pic(w, pic.h, pic.mode, cells, pic.pal, pic.fonts)
    return Pic(pic.w, pic.h, pic.mode, cells, pic.pal, pic.fonts)

def correspondence(ctx):
    rng = ctx.rng
    cases = corr_cases(ctx)
    impl = ctx.impl(['c5rt %s %d %d %s' % (c['fmt'], c['comp'], c['sauce'], c['pic'].args()) for c in cases], per_case_timeout=30)
    exprs = ['run_rt %d %s %s %s' % (FNO[c['fmt']], 'true' if c['comp'] else 'false', 'true' if c['sauce'] else 'false', c['pic'].coq()) for c in cases]
    # second wave: mutated files through load / save / load on both sides
    mcases = []
    nmut = ctx.n(24, 200)
    by_fmt = {f: [] for f in FMTS}
    for c, r in zip(cases, impl):
        if r and r[0] == 'ok' and r[1][0] == 1 and c['pic'].w * c['pic'].h <= 1000 and c['pic'].w <= 160:
            n = r[1][1]; by_fmt[c['fmt']].append((c, r[1][2:2 + n]))
    for fmt in FMTS:
        pool = by_fmt[fmt]
        if not pool: continue
        for _ in range(nmut):
            c, b = rng.choice(pool)
            data, tail = split_sauce(b) if c['sauce'] else (b, None)
            d2 = mutate(rng, data, header_len(fmt, data))
            if len(d2) > 60000: continue
            mcases.append({'kind': 'resave', 'fmt': fmt, 'data': d2, 'tail': tail, 'pic': c['pic'], 'comp': c['comp'], 'sauce': c['sauce']})
    mcases += xb512_cases(rng, by_fmt['xb'], ctx.n(10, 45))
    mcases += [{'kind': 'resave', 'fmt': 'idf', 'data': d, 'tail': None, 'pic': None, 'comp': rng.randrange(2), 'sauce': 0, 'directed': 'idf wide'}
               for d in idf_wide_files(rng, ctx.n(5, 24))]
    mimpl = ctx.impl(['c5resave %s %d %d %s' % (c['fmt'], c['comp'], c['sauce'], hexs(c['data'] + (c['tail'] or []))) for c in mcases], per_case_timeout=30)
    for c in mcases:
        s = sauce_of(c['fmt'], c['pic']) if c['tail'] else 'None'
        exprs.append('run_resave %d %s %s [%s] (%s)' % (FNO[c['fmt']], 'true' if c['comp'] else 'false', 'true' if c['sauce'] else 'false',
                                                       '; '.join(map(str, c['data'])), s))
    # third wave (extension): whole files WITH their SAUCE bytes - Buffer::to_bytes(.., save_sauce) byte for byte (the date bytes are
    # taken from the real output) and Buffer::from_bytes on them, through Model/C05Files.v (C05 data + C11 record / split)
    fcases = []; fnorm = []
    nfile = ctx.n(6, 36); per_fmt = {}
    for c, r in zip(cases, impl):
        fk = (c['fmt'], c['comp'])                                             # XBin: both data layouts
        if not c['sauce'] or per_fmt.get(fk, 0) >= (nfile if c['fmt'] not in ('xb', 'idf') else (nfile + 1) // 2): continue
        if not (r and r[0] == 'ok' and r[1][0] == 1) or c['pic'].w * c['pic'].h > 1000 or c['pic'].w > 160: continue
        n = r[1][1]; b = r[1][2:2 + n]
        data, tail = split_sauce(b)
        if tail is None: continue
        per_fmt[fk] = per_fmt.get(fk, 0) + 1
        name = 'verif font 0' if (c['pic'].fonts and 0 in c['pic'].fonts) else 'Codepage 437 English'
        fcases.append({'kind': 'file', 'fmt': c['fmt'], 'pic': c['pic'], 'comp': c['comp'], 'sauce': 1})
        fnorm.append(norm_impl_file(r))
        exprs.append('run_file %d %s %s [%s] [%s]' % (FNO[c['fmt']], 'true' if c['comp'] else 'false', c['pic'].coq(),
                                                      '; '.join(str(ord(ch)) for ch in name), '; '.join(map(str, tail[83:91]))))
    weights = [c['pic'].w * c['pic'].h + 2000 for c in cases] + [len(c['data']) + 4000 for c in mcases] + [2 * c['pic'].w * c['pic'].h + 6000 for c in fcases]
    model = model_eval(ctx, IMPORTS, ['digest (%s)' % e for e in exprs], weights)
    dis = []; dist = {}; nontrivial = set(); outcomes = {}
    allc = cases + mcases + fcases
    norm = [norm_impl(r, c['sauce']) for c, r in zip(cases, impl)] + [norm_resave_impl(r, c['sauce']) for c, r in zip(mcases, mimpl)] + fnorm
    bad = [i for i in range(len(allc)) if norm[i] is None or model[i] is None or digest(norm[i]) != model[i]]
    # the cases whose digests differ are evaluated again in full to locate the first difference
    full = model_eval(ctx, IMPORTS, [exprs[i] for i in bad[:6]], None) if bad else []
    for k, c in enumerate(allc):
        a = norm[k]
        key = '%s %s' % (c['fmt'], c['kind']); dist[key] = dist.get(key, 0) + 1
        if c['kind'] in ('rt', 'file'):
            if c['fmt'] == 'xb': key2 = 'xb %s %s' % (c['kind'], 'compressed' if c['comp'] else 'plain'); dist[key2] = dist.get(key2, 0) + 1
            oc = 'save-refused' if a == [0] else ('save-or-load-panics' if a == [-1] else (a[0] if a and isinstance(a[0], str) else ('saved+loaded' if c['kind'] == 'rt' else 'file-with-sauce:saved+loaded')))
            if a and a[0] == 1: nontrivial.add((c['fmt'], c['kind'], c['comp'], c['pic'].w, c['pic'].h, hash(tuple(c['pic'].cell_list()[:50]))))
        else:
            if c.get('directed'): dist['directed resave ' + c['directed']] = dist.get('directed resave ' + c['directed'], 0) + 1
            oc = 'mutated:' + ('load-refused' if a == [0] else ('panics' if a == [-1] else (a[0] if a and isinstance(a[0], str) else ('loaded+save-refused' if resave_refused(a) else 'loaded'))))
            if a and a[0] == 1: nontrivial.add((c['fmt'], 'm', hash(tuple(c['data'][-80:])), len(c['data'])))
        outcomes[oc] = outcomes.get(oc, 0) + 1
    for j, k in enumerate(bad):
        c = allc[k]; a = norm[k]; b = full[j] if j < len(full) else None
        i = first_diff(a, b)
        d = {'case': 'c5%s %s %d %d' % (c['kind'], c['fmt'], c['comp'], c['sauce']), 'fmt': c['fmt'], 'comp': c['comp'], 'sauce': c['sauce'], 'kind': c['kind'],
             'first_difference_at': i, 'impl': None if a is None else a[max(0, i - 2):i + 6], 'model': None if b is None else b[max(0, i - 2):i + 6],
             'lengths': [a and len(a), b and len(b)]}
        if c['kind'] in ('rt', 'file'):
            d.update({'picture': c['pic'].brief(), 'fontspec': fontspec(c['pic']), 'pal': c['pic'].pal})
            if c['kind'] == 'file': d['kind'] = 'rt'      # the search stage re-runs it as a round trip with SAUCE
        else:
            d.update({'file': hexs(c['data'] + (c['tail'] or []))[:200000]})
        dis.append(d)
    return {'cases': len(cases) + len(mcases), 'disagreements': dis, 'distinct_nontrivial': len(nontrivial),
            'distribution': {'kinds': dist, 'outcomes': outcomes, 'model_errors': getattr(ctx, 'model_errors', [])[:2]},
            'samples': [('c5rt %s %d %d %s' % (c['fmt'], c['comp'], c['sauce'], c['pic'].args()))[:160] for c in cases[:3]]}

def resave_refused(a):
    """normalised resave observation: first load ok, then the writer refused"""
    try:
        d, i = parse_load(a, 0)
        return isinstance(d, dict) and a[i:] == [0]
    except Exception:
        return False

def norm_impl_file(r):
    """harness c5rt result with save_sauce: the COMPLETE file bytes (SAUCE included), then the load observation"""
    if r is None: return None
    if r[0] == 'panic': return [-1]
    if r[0] == 'err' and 'picture-too-large' in str(r[1]): return [-2]
    if r[0] != 'ok': return [r[0]]
    v = r[1]
    if v[0] != 1: return [0]
    n = v[1]; rest = v[2 + n:]
    if rest and rest[0] != 1: rest = [0]
    return [1, n] + v[2:2 + n] + rest

def idf_wide_files(rng, n):
    """hand-made IDF files whose header width exceeds the loader's 80-column layer (extension: idf_resave_any_width)"""
    out = []
    for k in range(n):
        x1 = rng.choice([0, 0, 1, 5]); w = rng.choice([81, 82, 100, 160, 200, 300]); h = rng.choice([1, 2, 3])
        x2 = x1 + w - 1
        d = [4, 0x31, 0x2e, 0x34, x1 & 255, x1 >> 8, 0, 0, x2 & 255, x2 >> 8, (h - 1) & 255, 0]
        left = w * h
        while left > 0:
            if rng.random() < 0.3:
                cnt = min(left, rng.choice([1, 2, 5, 70, 90, 170]))
                d += [1, 0, cnt & 255, cnt >> 8, rng.randrange(256), rng.randrange(256)]; left -= cnt
            else:
                ch = rng.randrange(256); at = rng.randrange(256)
                if ch == 1 and at == 0: at = 7
                d += [ch, at]; left -= 1
        d += [rng.randrange(256) for _ in range(4096)] + [rng.randrange(64) for _ in range(48)]
        out.append(d)
    return out

def xb_synth_512(rng, w, h, fh, with_font, ice, pages):
    """a hand-made uncompressed XBin file in 512-character mode; pages: 'both' | 'zero' | 'one'"""
    flags = 16 | (2 if with_font else 0) | (8 if ice else 0)
    d = list(b'XBIN') + [26, w & 255, w >> 8, h & 255, h >> 8, fh, flags]
    if with_font: d += [rng.randrange(256) for _ in range(2 * 256 * fh)]
    for i in range(w * h):
        a = rng.randrange(256)
        if pages == 'zero': a &= ~8
        elif pages == 'one': a |= 8
        d += [rng.randrange(256), a & 255]
    return d

def xb512_cases(rng, pool, n):
    """directed re-save inputs for 512-character files (extension): pages 0 and 1 / only 0 / only 1 in use, with and without
    the font block (without it and with a page-1 cell: known finding 2, both sides must report the writer's refusal), saved
    again with either value of SaveOptions.compress; seeds: hand-made files and the two-font files stage C just wrote"""
    out = []
    def add(d, what, tail=None):
        out.append({'kind': 'resave', 'fmt': 'xb', 'data': d, 'tail': tail, 'pic': None, 'comp': rng.randrange(2), 'sauce': 0, 'directed': what})
    for k in range(n):
        with_font = k % 3 != 2
        pages = ['both', 'zero', 'one'][(k // 3) % 3]
        w, h = rng.choice([(1, 1), (5, 3), (16, 2), (80, 2), (33, 4)]); fh = rng.choice([1, 2, 8, 16])
        d = xb_synth_512(rng, w, h, fh, with_font, rng.random() < 0.5, pages)
        if k % 7 == 6 and len(d) > 13: d = d[:-rng.randrange(1, 3)]                  # cut inside the last row
        add(d, '512 %s pages=%s' % ('font' if with_font else 'no-font', pages))
    two = [(c, b) for c, b in pool if c['pic'].fonts and len(c['pic'].fonts) == 2 and not c['comp'] and len(b) > 11 and b[10] & 16]
    for c, b in two[:max(2, n // 3)]:
        data, tail = split_sauce(b) if c['sauce'] else (b, None)
        hl = header_len('xb', data)
        cells = data[hl:]
        one = data[:hl] + [x | 8 if i & 1 else x for i, x in enumerate(cells)]
        zero = data[:hl] + [x & ~8 if i & 1 else x for i, x in enumerate(cells)]
        nofont = data[:10] + [data[10] & ~2] + data[11:11 + (48 if data[10] & 1 else 0)] + cells
        add(one, '512 writer-file pages=one'); add(zero, '512 writer-file pages=zero'); add(nofont, '512 writer-file no-font')
    return out

def fontspec(pic):
    if pic.fonts is None: return None
    return {s: [h, [kind, v if kind == 'pat' else list(v)]] for s, (h, (kind, v)) in pic.fonts.items()}

def hexs(b):
    return ''.join('%02x' % x for x in b) or '-'

def norm_resave_impl(r, sauce):
    if r is None: return None
    if r[0] == 'panic': return [-1]
    if r[0] == 'err' and 'picture-too-large' in str(r[1]): return [-2]
    if r[0] != 'ok': return [r[0]]
    v = r[1]
    if v[0] == -1: return [-1]
    if v[0] != 1: return [0]
    d, i = parse_load(v, 0)
    first = v[:i]
    rest = v[i:]
    if not rest: return first + ['missing']
    if rest[0] != 1: return first + [0]
    return first + norm_impl(('ok', rest), sauce)

def norm_resave_model(m):
    return m

def model_eval(ctx, imports, exprs, weights=None, shards=16, timeout=1500):
    """ctx.model with weight-balanced shards (pictures differ a lot in size); same file layout and parser as the driver"""
    import subprocess
    from vlib import driver
    cdir = os.path.join(driver.COQ, 'Cases')
    os.makedirs(cdir, exist_ok=True)
    n = len(exprs)
    if n == 0: return []
    weights = weights or [1] * n
    shards = max(1, min(shards, n))
    load = [0] * shards; idxs = [[] for _ in range(shards)]
    for i in sorted(range(n), key=lambda i: -weights[i]):
        s = load.index(min(load)); idxs[s].append(i); load[s] += weights[i]
    out = [None] * n
    procs = []
    for s in range(shards):
        idx = sorted(idxs[s])
        if not idx: continue
        path = os.path.join(cdir, '%s_m%d.v' % (ctx.pid, s))
        with open(path, 'w') as f:
            f.write('From Coq Require Import NArith ZArith List String.\nImport ListNotations.\n')
            f.write(imports + '\nSet Printing Width 1000000.\nSet Printing Depth 10000000.\n')
            for i in idx:
                f.write('Eval vm_compute in (%s).\n' % exprs[i])
        of = open(path[:-2] + '.out', 'w')
        p = subprocess.Popen(['coqc', '-noglob', '-Q', driver.COQ, 'IE', path], stdout=of, stderr=subprocess.STDOUT,
                             cwd=driver.COQ, preexec_fn=driver._big_stack)
        procs.append((p, idx, path, of))
    ctx.model_errors = []
    for p, idx, path, of in procs:
        try: p.wait(timeout=timeout)
        except subprocess.TimeoutExpired:
            p.kill(); p.wait()
        of.close()
        with open(path[:-2] + '.out', errors='replace') as f: o = f.read()
        vals = []; cur = None
        for line in o.splitlines():
            if line.startswith('     = '): cur = [line[7:]]
            elif line.startswith('     : '):
                if cur is not None: vals.append(' '.join(cur)); cur = None
            elif cur is not None: cur.append(line)
        if p.returncode != 0 or len(vals) != len(idx):
            ctx.model_errors.append(o[-2000:])
        for k, i in enumerate(idx):
            if k < len(vals):
                out[i] = [int(x) for x in re.findall(r'-?\d+', vals[k])]
        try: os.remove(path[:-2] + '.out')
        except OSError: pass
    return out

# --------------------------------------------------------------------------- stage S: the property on the real code
def rgb_of(pal, idx):
    if idx & (1 << 31): return ((idx >> 16) & 255, (idx >> 8) & 255, idx & 255)
    return pal[idx] if idx < len(pal) else (0, 0, 0)

def displayed(pal, cell, pages):
    """what a cell looks like: character, foreground RGB (bold folds into +8), background RGB, blink [, font page]"""
    ch, fg, bg, at, pg = cell
    f = fg + 8 if (at & BOLD and fg < 8) else fg
    d = (ch, rgb_of(pal, f), rgb_of(pal, bg), 1 if at & BLINK else 0)
    return d + (pg,) if pages else d

EMBEDS_PALETTE = {'adf', 'xb', 'idf'}
EMBEDS_FONT = {'adf', 'xb', 'idf'}

def compare_pictures(fmt, a, b, what, strict_pages=True):
    """a, b: dicts with w, h, ice, pal, fonts {slot: (fw, fh, len, data)}, cells. -> None or (class, detail).
    strict_pages: font page numbers must agree (our own pictures); otherwise (re-saved foreign files) the pages may be
    renumbered as long as every cell shows the same glyph table: a 512-character XBin file whose cells all sit on page 1
    is saved again as a one-font file"""
    if (a['w'], a['h']) != (b['w'], b['h']):
        return ('size', '%s: %dx%d became %dx%d' % (what, a['w'], a['h'], b['w'], b['h']))
    if (a['ice'] == 2) != (b['ice'] == 2):
        return ('mode', '%s: ice mode %d became %d' % (what, a['ice'], b['ice']))
    pages = fmt == 'xb' and strict_pages
    page_map = {}
    for i, (x, y) in enumerate(zip(a['cells'], b['cells'])):
        dx, dy = displayed(a['pal'], x, pages), displayed(b['pal'], y, pages)
        if dx != dy:
            k = next(j for j in range(len(dx)) if dx[j] != dy[j])
            cls = ['char', 'fg', 'bg', 'blink', 'page'][k]
            return ('cell-' + cls, '%s: cell (%d,%d) %r shows %r, after the round trip %r shows %r' %
                    (what, i % a['w'], i // a['w'], x, dx, y, dy))
        if page_map.setdefault(x[4], y[4]) != y[4]:
            return ('cell-page', '%s: cells of font page %d end up on pages %d and %d' % (what, x[4], page_map[x[4]], y[4]))
    if fmt in EMBEDS_PALETTE and a['pal'][:16] != b['pal'][:16]:
        return ('palette', '%s: palette %r became %r' % (what, a['pal'][:16], b['pal'][:16]))
    if fmt in EMBEDS_FONT:
        for s, s2 in sorted(page_map.items()) or [(0, 0)]:
            fa, fb = a['fonts'].get(s), b['fonts'].get(s2)
            if fa is None or fb is None or fa[1] != fb[1] or list(fa[3]) != list(fb[3]):
                return ('font', '%s: glyphs of font page %d differ from those of page %d after the round trip (height %s -> %s)' % (what, s, s2, fa and fa[1], fb and fb[1]))
    return None

_DEFAULT_FONT = []
def default_font_bytes():
    """glyph block of the default font (the file named by the first `fonts!` entry; PSF2 header skipped)"""
    if not _DEFAULT_FONT:
        from vlib import driver
        with open(os.path.join(driver.REPO, 'data/fonts/Ansi/cp437_8x16.psf'), 'rb') as f: d = f.read()
        _DEFAULT_FONT.append(list(d[int.from_bytes(d[8:12], 'little'):]))
    return _DEFAULT_FONT[0]

def pic_as_dict(pic):
    fonts = {0: (8, 16, 256, default_font_bytes())}
    if pic.fonts:
        for s in pic.fonts:
            h, data = pic.font_bytes(s); fonts[s] = (8, h, 256, data)
    return {'w': pic.w, 'h': pic.h, 'ice': pic.mode, 'pal': pic.palette(), 'fonts': fonts, 'cells': pic.cell_list()}

def spec_decode_bin(b):
    """BIN per the SAUCE spec (BinaryText): (char, attr) pairs, width = 2 * FileType of the SAUCE record, flags bit 0 = iCE"""
    data, tail = split_sauce(b)
    if tail is None: return None
    ft = tail[1 + 95]; flags = tail[1 + 105]
    w = 2 * ft; ice = flags & 1
    cells = []
    for i in range(0, len(data) - 1, 2):
        a = data[i + 1]
        cells.append((data[i], a & 15, (a >> 4) if ice else (a >> 4) & 7, 0 if ice else (a >> 7)))
    return {'w': w, 'ice': ice, 'cells': cells}

def spec_decode_adf(b):
    """ADF per doc/FileFormats/Adf/ArtworxDataFormat.txt: version, 64 six-bit VGA registers, 4096 font bytes, 160-byte rows"""
    data, _ = split_sauce(b)
    if len(data) < 4289 or data[0] != 1: return None
    regs = [tuple(data[1 + 3 * i:4 + 3 * i]) for i in range(64)]
    font = data[193:4289]
    cells = [(data[i], data[i + 1] & 15, data[i + 1] >> 4) for i in range(4289, len(data) - 1, 2)]
    return {'regs': regs, 'font': font, 'cells': cells, 'rows': (len(data) - 4289) // 160}

def check_spec(fmt, pic, b):
    """independent decoders on the file bytes"""
    cells = pic.cell_list()
    if fmt == 'bin':
        d = spec_decode_bin(b)
        if d is None: return ('spec-no-sauce', 'BIN file without the SAUCE record that carries its width')
        if d['w'] != pic.w: return ('spec-width', 'SAUCE FileType gives width %d, picture is %d wide' % (d['w'], pic.w))
        if bool(d['ice']) != (pic.mode == 2): return ('spec-mode', 'SAUCE iCE flag %d, picture mode %d' % (d['ice'], pic.mode))
        if len(d['cells']) != len(cells): return ('spec-cell-count', '%d pairs for %d cells' % (len(d['cells']), len(cells)))
        for i, (c, e) in enumerate(zip(cells, d['cells'])):
            fg = c[1] + 8 if (c[3] & BOLD and c[1] < 8) else c[1]
            want = (c[0], fg, c[2], 0 if pic.mode == 2 else (1 if c[3] & BLINK else 0))
            if want != e: return ('spec-cell', 'cell %d: %r is stored as %r' % (i, want, e))
    if fmt == 'adf':
        d = spec_decode_adf(b)
        if d is None: return ('spec-header', 'not an ADF version 1 file')
        pal = pic.palette()
        for i in range(16):
            if tuple(c >> 2 for c in pal[i]) != d['regs'][EGA_OFFSETS[i]]:
                return ('spec-palette', 'text colour %d %r is not in VGA register %d: %r' % (i, pal[i], EGA_OFFSETS[i], d['regs'][EGA_OFFSETS[i]]))
        if pic.fonts and 0 in pic.fonts and list(pic.font_bytes(0)[1]) != list(d['font']):
            return ('spec-font', 'font block differs from the glyph bytes of font 0')
        if d['rows'] != pic.h or len(d['cells']) != len(cells): return ('spec-rows', '%d rows stored for %d' % (d['rows'], pic.h))
        for i, (c, e) in enumerate(zip(cells, d['cells'])):
            fg = c[1] + 8 if (c[3] & BOLD and c[1] < 8) else c[1]
            if (c[0], fg, c[2]) != e: return ('spec-cell', 'cell %d: %r is stored as %r' % (i, (c[0], fg, c[2]), e))
    return None

REGRESSIONS = [
    # (name, fmt, comp, sauce, picture, signature when it fails)
    ('xb 80x10', 'xb', 0, 0, lambda: Pic(80, 10, 1, [(65, 7, 0, 0, 0)] * 800), 'C05-xb-height-lt-25'),
    ('adf 80x2', 'adf', 0, 0, lambda: Pic(80, 2, 2, [(65, 7, 0, 0, 0)] * 160), 'C05-adf-height-lt-25'),
    ('tnd ctrl char', 'tnd', 0, 1, lambda: Pic(4, 1, 2, [(65, 7, 0, 0, 0), (3, 4, 1, 0, 0), (66, 4, 1, 0, 0), (67, 2, 0, 0, 0)]), 'C05-tnd-ctrl-char-colour'),
    ('tnd initial fg', 'tnd', 0, 1, lambda: Pic(10, 1, 2, [(65, 0, 0, 0, 0)] + [(66 + i, i + 1, 0, 0, 0) for i in range(9)]), 'C05-tnd-initial-fg-index'),
    ('tnd palette 0 not black', 'tnd', 0, 1, lambda: Pic(3, 1, 2, [(65, 0, 0, 0, 0), (66, 1, 0, 0, 0), (67, 0, 2, 0, 0)],
                                                           [(255, 0, 0), (0, 0, 0)] + [(0, 255, 0)] * 14), 'C05-tnd-first-cell-colours'),
    ('idf lone (1,0) cell before a run', 'idf', 1, 0, lambda: Pic(8, 1, 2, [(1, 0, 0, 0, 0)] + [(65, 7, 0, 0, 0)] * 5 + [(66, 7, 0, 0, 0)] * 2), 'C05-idf-double-repeat-header'),
    ('idf lone (1,0) cell before (1,5)', 'idf', 1, 0, lambda: Pic(4, 1, 2, [(1, 0, 0, 0, 0), (1, 5, 0, 0, 0), (66, 7, 0, 0, 0), (66, 7, 0, 0, 0)]), 'C05-idf-double-repeat-header'),
]

def extreme_pics(rng, fmt, thorough):
    """sizes at the ends of the quantifier; cells computed by `mix` on both sides"""
    out = []
    if fmt == 'bin':
        for w, h in [(2, 1), (510, 1), (510, 40 if thorough else 4), (160, 1), (2, 300 if thorough else 30)]:
            m = rng.choice([1, 2]); out.append(Pic(w, h, m, ('@', rng.randrange(1 << 31), 0, 16, 16 if m == 2 else 8, 0 if m == 2 else BLINK, 1)))
    elif fmt == 'adf':
        for h in [1, 2, 10, 24, 25, 26, 100, 1000 if thorough else 200]:
            out.append(Pic(80, h, 2, ('@', rng.randrange(1 << 31), rng.choice([0, 2]), 16, 16, 0, 1), six_bit_palette(rng), {0: (16, ('pat', rng.randrange(1, 255)))}))
    elif fmt == 'idf':
        for w, h in [(1, 1), (80, 1), (1, 200), (80, 200), (80, 10), (79, 3)]:
            out.append(Pic(w, h, 2, ('@', rng.randrange(1 << 31), rng.choice([0, 1, 2]), 16, 16, 0, 1), six_bit_palette(rng), {0: (16, ('pat', rng.randrange(1, 255)))}))
    elif fmt == 'xb':
        for w, h in [(1, 1), (80, 1), (80, 10), (4096, 1), (1, 200), (4096, 200 if thorough else 3), (255, 2), (256, 2), (257, 2)]:
            m = rng.choice([1, 2]); fh = rng.choice([1, 16, 32])
            two = rng.random() < 0.5
            fonts = {0: (fh, ('pat', 7)), 1: (fh, ('pat', 9))} if two else {0: (fh, ('pat', 7))}
            cells = ('@', rng.randrange(1 << 31), 0, 8 if two else 16, 16 if m == 2 else 8, 0 if m == 2 else BLINK, 2 if two else 1)
            p = Pic(w, h, m, cells, six_bit_palette(rng), fonts)
            if two and len({c[4] for c in p.cell_list()}) < 2: p = Pic(w, h, m, ('@', 1, 0, 16, 16 if m == 2 else 8, 0 if m == 2 else BLINK, 1), p.pal, {0: (fh, ('pat', 7))})
            out.append(p)
    else:
        for w, h in [(1, 1), (80, 1), (80, 10), (1000, 1), (1000, 30 if thorough else 3), (1, 500 if thorough else 50), (81, 2)]:
            ncol = rng.choice([2, 16, 300])
            pal = [tuple(rng.randrange(256) for _ in range(3)) for _ in range(ncol)]
            out.append(Pic(w, h, 2, ('@', rng.randrange(1 << 31), rng.choice([0, 1, 2]), ncol, ncol, 0, 1), pal))
    return out

def check_rt(fmt, comp, sauce, pic, r, regression_sig=None):
    """one save/load case -> list of failures (at most one)"""
    inp = {'case': 'c5rt %s %d %d' % (fmt, comp, sauce), 'fmt': fmt, 'comp': comp, 'sauce': sauce, 'picture': pic.brief(), 'pal': pic.pal, 'fontspec': fontspec(pic)}
    def fail(cls, detail, impl=None):
        sig = regression_sig or ('c05-%s-roundtrip-%s' % (fmt, cls))
        return [{'signature': sig, 'input': inp, 'impl': impl, 'expected': 'the saved picture', 'detail': detail}]
    if r is None or r[0] != 'ok':
        return fail(r[0] if r else 'none', 'saving or loading did not return: %r' % (r,), r)
    v = r[1]
    if v[0] != 1: return fail('save-refused', 'Buffer::to_bytes refused a representable picture')
    b, d, _ = parse_rt(v)
    if not isinstance(d, dict): return fail('load-refused', 'Buffer::from_bytes refused the file just written')
    c = compare_pictures(fmt, pic_as_dict(pic), d, 'save+load')
    if c:
        cls, detail = c
        sig = None
        if regression_sig is None:
            if fmt in ('xb', 'adf') and cls == 'size' and pic.h < 25 and d['h'] == 25: regression_sig = 'C05-%s-height-lt-25' % fmt
        return (fail(cls, detail, [d['w'], d['h'], d['ice']]) if regression_sig is None else
                [{'signature': regression_sig, 'input': inp, 'impl': [d['w'], d['h'], d['ice']], 'expected': 'the saved picture', 'detail': detail}])
    s = check_spec(fmt, pic, b)
    if s: return fail(s[0], 'spec-derived decoder: ' + s[1])
    return []

def check_resave(fmt, comp, sauce, data_hex, r):
    inp = {'case': 'c5resave %s %d %d' % (fmt, comp, sauce), 'fmt': fmt, 'comp': comp, 'sauce': sauce, 'file': data_hex}
    def fail(cls, detail, impl=None):
        return [{'signature': 'c05-%s-resave-%s' % (fmt, cls), 'input': inp, 'impl': impl, 'expected': 'the picture of the first load', 'detail': detail}]
    if r is None: return fail('none', 'no result')
    if r[0] == 'err' and 'picture-too-large' in str(r[1]): return None        # outside what the harness prints; not judged
    if r[0] != 'ok': return fail(r[0], 'load / save / load did not return: %r' % (r,), r)
    v = r[1]
    if v[0] != 1: return None                                                 # the loader refused the file (or panicked: C02): nothing to re-save
    d1, i = parse_load(v, 0)
    rest = v[i:]
    if not rest or rest[0] != 1:
        if fmt == 'idf' and (d1['h'] > 200 or (sauce and d1['w'] > 510)):
            return [{'signature': 'C05-idf-resave-size-outside-writer-limits', 'input': inp, 'impl': [d1['w'], d1['h']], 'expected': 'the picture of the first load',
                     'detail': 'the IDF loader accepted a %dx%d picture; the IDF writer refuses more than 200 rows, and more than 510 columns when it appends SAUCE' % (d1['w'], d1['h'])}]
        if fmt == 'xb' and any(c[4] == 1 for c in d1['cells']) and 1 not in d1['fonts']:
            return [{'signature': 'C05-xb-resave-512-chars-without-font', 'input': inp, 'impl': [d1['w'], d1['h']], 'expected': 'the picture of the first load',
                     'detail': 'the XBin loader accepted a file in 512-character mode without a font block; the writer cannot save font page 1 without a font'}]
        return fail('save-refused', 'the loader accepted the file (%dx%d) but Buffer::to_bytes refuses to save what it loaded' % (d1['w'], d1['h']), [d1['w'], d1['h']])
    b, d2, _ = parse_rt(rest)
    if not isinstance(d2, dict): return fail('reload-refused', 'the re-saved file is refused by the loader')
    c = compare_pictures(fmt, d1, d2, 'load+save+load', strict_pages=False)
    if c: return fail(c[0], c[1], [d2['w'], d2['h'], d2['ice']])
    return []

def search(ctx, broken):
    rng = ctx.rng
    cases = []          # (kind, harness case, checker args)
    for name, fmt, comp, sauce, mk, sig in REGRESSIONS:
        pic = mk(); cases.append(('rt', 'c5rt %s %d %d %s' % (fmt, comp, sauce, pic.args()), (fmt, comp, sauce, pic, sig)))
    # a header-only ADF / XBin file: zero rows, re-saved (the font-page list of an empty picture)
    adf_hdr = [1] + [0] * 192 + [0] * 4096
    cases.append(('resave', 'c5resave adf 0 0 %s' % hexs(adf_hdr), ('adf', 0, 0, hexs(adf_hdr))))
    xb_hdr = list(b'XBIN') + [26, 80, 0, 0, 0, 16, 0]
    cases.append(('resave', 'c5resave xb 0 0 %s' % hexs(xb_hdr), ('xb', 0, 0, hexs(xb_hdr))))
    # inputs on which model and implementation disagreed come first
    for bk in broken:
        d = bk.get('detail') or {}
        if isinstance(d, dict) and d.get('kind') == 'rt' and 'picture' in d:
            pic = Pic.from_brief(dict(d['picture'], pal=[tuple(c) for c in d['pal']] if d.get('pal') else None,
                                      fontspec={int(s): (h, (k, v)) for s, (h, (k, v)) in (d.get('fontspec') or {}).items()} or None))
            if len(pic.cell_list()) == pic.w * pic.h:
                cases.append(('rt', 'c5rt %s %d %d %s' % (d['fmt'], d['comp'], d['sauce'], pic.args()), (d['fmt'], d['comp'], d['sauce'], pic, None)))
        if isinstance(d, dict) and d.get('kind') == 'resave' and 'file' in d:
            cases.append(('resave', 'c5resave %s %d %d %s' % (d['fmt'], d['comp'], d['sauce'], d['file']), (d['fmt'], d['comp'], d['sauce'], d['file'])))
    thorough = ctx.thorough or ctx.escalated
    per = ctx.n(200, 2000)
    seeds = {f: [] for f in FMTS}
    for fmt in FMTS:
        for pic in extreme_pics(rng, fmt, ctx.thorough):
            comp, sauce = save_opts(rng, fmt)
            cases.append(('rt', 'c5rt %s %d %d %s' % (fmt, comp, sauce, pic.args()), (fmt, comp, sauce, pic, None)))
        for k in range(per):
            pic = gen_pic(rng, fmt)
            comp, sauce = save_opts(rng, fmt)
            cases.append(('rt', 'c5rt %s %d %d %s' % (fmt, comp, sauce, pic.args()), (fmt, comp, sauce, pic, None)))
    impl = ctx.impl([c[1] for c in cases], per_case_timeout=120, mem_mb=3072)
    failures = []; n = 0; nontrivial = set()
    for (kind, case, args), r in zip(cases, impl):
        n += 1
        if kind == 'rt':
            fmt, comp, sauce, pic, sig = args
            failures += check_rt(fmt, comp, sauce, pic, r, sig)
            if r and r[0] == 'ok' and r[1][0] == 1:
                nontrivial.add((fmt, pic.w, pic.h, comp, hash(str(pic.cells)[:300])))
                if pic.w * pic.h <= 2500: seeds[fmt].append((comp, sauce, r[1][2:2 + r[1][1]]))
        else:
            f = check_resave(*args, r)
            if f: failures += f
    # re-save stability on mutated files
    mcases = []
    nmut = ctx.n(150, 1500)
    for fmt in FMTS:
        pool = seeds[fmt]
        if not pool: continue
        for _ in range(nmut):
            comp, sauce, b = rng.choice(pool)
            data, tail = split_sauce(b) if sauce else (b, None)
            d2 = mutate(rng, data, header_len(fmt, data)) + (tail or [])
            if len(d2) > 200000: continue
            mcases.append((fmt, comp, sauce, hexs(d2)))
    # extension: IDF files wider than the loader's layer, XBin 512-character files (pages 0/1, with and without the font block)
    for d in idf_wide_files(rng, ctx.n(40, 300)): mcases.append(('idf', rng.randrange(2), 0, hexs(d)))
    for c in xb512_cases(rng, [], ctx.n(60, 400)): mcases.append(('xb', c['comp'], 0, hexs(c['data'])))
    mimpl = ctx.impl(['c5resave %s %d %d %s' % c for c in mcases], per_case_timeout=60, mem_mb=3072)
    judged = 0; skipped = {}
    for c, r in zip(mcases, mimpl):
        f = check_resave(*c, r)
        n += 1
        if f is None:
            k = 'load-refused' if (r and r[0] == 'ok') else 'not-printable'
            skipped[k] = skipped.get(k, 0) + 1; continue
        judged += 1
        nontrivial.add((c[0], 'm', hash(c[3][-200:]), len(c[3])))
        failures += f
    failures.sort(key=lambda f: (f['signature'], len(json.dumps(f['input']))))
    return {'cases': n, 'failures': failures, 'distinct_nontrivial': len(nontrivial),
            'resave_judged': judged, 'resave_not_judged': skipped,
            'regression_inputs': [r[0] for r in REGRESSIONS] + ['adf header-only file re-saved', 'xb header-only file re-saved'],
            'samples': [cases[0][1][:120], cases[len(REGRESSIONS) + 3][1][:120]]}

# --------------------------------------------------------------------------- replay
def replay(ctx, body):
    from vlib import driver
    inp = body.get('input')
    print('replay', ID, json.dumps(inp)[:600])
    if not isinstance(inp, dict) or 'case' not in inp:
        print(json.dumps(body, indent=1)[:3000]); return 1
    ok, out = driver.stage_build()
    if not ok:
        print(out[-2000:]); return 2
    fmt, comp, sauce = inp['fmt'], inp['comp'], inp['sauce']
    if 'file' in inp:
        r = ctx.impl(['c5resave %s %d %d %s' % (fmt, comp, sauce, inp['file'])], per_case_timeout=60)[0]
        f = check_resave(fmt, comp, sauce, inp['file'], r)
        data = [int(inp['file'][i:i + 2], 16) for i in range(0, len(inp['file']), 2)] if inp['file'] != '-' else []
        d, tail = split_sauce(data)
        if tail is None:
            m = ctx.model(IMPORTS, ['digest (run_resave %d %s %s [%s] None)' % (FNO[fmt], 'true' if comp else 'false', 'true' if sauce else 'false', '; '.join(map(str, d)))])
            print('model digest :', (m[0] or [])[:12]); print('impl  digest :', (digest(norm_resave_impl(r, sauce)) or [])[:12])
    else:
        d = inp['picture']
        pic = Pic.from_brief(dict(d, pal=[tuple(c) for c in inp['pal']] if inp.get('pal') else None,
                                  fontspec={int(s): (h, (k, v)) for s, (h, (k, v)) in (inp.get('fontspec') or {}).items()} or None))
        if len(pic.cell_list()) != pic.w * pic.h:
            print('the replay file holds only the first cells of this picture; re-run the check with the recorded seed'); return 1
        r = ctx.impl(['c5rt %s %d %d %s' % (fmt, comp, sauce, pic.args())], per_case_timeout=60)[0]
        f = check_rt(fmt, comp, sauce, pic, r)
        m = ctx.model(IMPORTS, ['digest (run_rt %d %s %s %s)' % (FNO[fmt], 'true' if comp else 'false', 'true' if sauce else 'false', pic.coq())])
        print('model digest :', (m[0] or [])[:12]); print('impl  digest :', (digest(norm_impl(r, sauce)) or [])[:12])
    print('implementation:', r if r is None or r[0] != 'ok' else 'ok (%d values)' % len(r[1]))
    for x in (f or []):
        print('  property fails:', x['signature'], '|', x['detail'][:400])
    print('property holds on this input' if not f else 'property violated on this input')
    return 0 if not f else 1

# --------------------------------------------------------------------------- manifest / evidence texts
TRUSTED = ['Coq 8.16.1 kernel + vm_compute (finite sweeps, model evaluation in stage C); no axioms (Print Assumptions: closed)',
           'translator/gen_formats.py + gen_codepage.py + vlib/rustsrc.py: header sizes, magic strings, flag bits, command bytes, EGA_COLOR_OFFSETS, '
           'DOS_DEFAULT_PALETTE, EGA_PALETTE, attribute flag constants and the default font are re-read from the source on every run',
           'the hand-written writer / loader bodies in Model/C05{Buf,Bin,XBin,Idf,Tundra}.v, tied to the code by stage C: file bytes and the complete '
           'loaded buffer (sizes, layer geometry, line count, modes, palette, fonts, every cell) are compared with the real '
           'Buffer::to_bytes / Buffer::from_bytes on random pictures per the quantifier, on unrepresentable pictures (error branches) and on mutated files',
           'stage C compares through block digests (length + three position-weighted sums per 64 values, computed on both sides) and re-evaluates a differing case in full',
           'the SAUCE byte layout: C11\'s model Model/Sauce.v (write, extract, split), composed with the format models in Model/C05Files.v; stage C compares the complete files Buffer::to_bytes(.., save_sauce) writes '
           '(the 8 date bytes are taken from the real output) and what Buffer::from_bytes loads from them; chrono\'s date parser is C11\'s oracle',
           'the XBin compressor / compressed reader: C06\'s Model/XBin.v and C02\'s Model/C02Loaders.v, glued in Model/C05XBinC.v and Proofs/C05XBinCProofs.v (the two reader models are proved to agree); '
           'whole compressed files are compared byte for byte and cell for cell in stage C',
           'harness/src/c05.rs, the python oracle and the python spec decoders of the search stage']
UNMODELLED = ['re-save stability is proved for every file the five loaders accept, with these remaining side conditions: BIN/ADF: the SAUCE record such a writer makes, or none (a .bin file carrying a '
              'non-BIN record of odd or > 510 width loads with a width BIN cannot store); IDF: at most 200 rows (the writer refuses more: known finding 1, proved to be the exact exception); '
              'XBin: none except known finding 2 (proved to be the exact exception); Tundra: non-negative height, < 2^30 cells, file < 2^29 bytes (u32 colour indices, bit 31 is special in Palette::get_rgb)',
              'cells whose colour is TextAttribute::TRANSPARENT_COLOR (1 << 31) and buffers with more than one layer, an alpha-channel layer or terminal buffers (Buffer::get_char takes other paths)',
              'fonts that are not embedded in the file (BIN, Tundra: the SAUCE font name), BitFont names other than "is it the default font", guess_font_name beyond that (CRC-32 equality is modelled as glyph equality)',
              'ColorOptimizer (SaveOptions.lossles_output = false): property C12; every case here saves with lossles_output = true',
              'the extension dispatch of Buffer::from_bytes is C02\'s; TerminalState resizing inside set_sauce, file names, the SAUCE title/author/comments a buffer carries (stage C buffers have none; the theorems hold for any) are C11\'s']
ASSUMPTIONS = ['Rust u8/u16/i32 operators behave as written into the model: `as u8` is mod 256, `r << 2 | r >> 4` on u8 truncates, i32 `/` truncates, `>>` on i32 is arithmetic',
               'the loop transcriptions: `loop { for _ in 0..width { … } }`, `while o < len` and `while x < width { …; x += rle_count }` are written as structural / fuelled recursion over the byte or cell list (stated in each Model file header); '
               'fuel is shown sufficient inside the round-trip proofs and is never exhausted in stage C',
               'SauceData::extract returns for the record written by write_sauce_info the fields the models assume (BIN: width = 2 * (w / 2), height 25, ice flag; Tundra: width, height 0; ADF/XBin: width, height) - exercised on the real code in stage C, proved in C11',
               'no CRC-32 collision between a loaded font and ANSI font page 0 (guess_font_name)']
RULE = ('random pictures per format from the quantifier: BIN even widths 2..510 x 1..60 rows in all three modes; ADF 80 x 1..60, six-bit palettes, 8x16 fonts; XBin 1..300 x 1..200 '
        '(<= 6000 cells), one or two fonts of height 1..32, blink or ice; IDF 1..80 x 1..200 plain and compressed; Tundra 1..1000 wide, 2..300 arbitrary 24-bit colours; '
        'cell styles: random bytes, long runs, control-range characters 0..6 and the (1, attribute 0) pattern, printable text, bold folded into high intensity; every tenth picture is spoiled '
        '(character > 255, wrong mode, palette size, extra font page, colours out of range, other width) to exercise the writers\' error branches; mutated files: truncation, extension, byte flips in the '
        'cell area and in the header, single-byte deletion; stage S additionally runs the sizes at the ends of the quantifier (1x1, 80x1, 80x10, 4096 wide, 200 high, 510 / 1000 wide) with cells computed by a '
        'hash on both sides. Extension: XBin pictures are saved with either value of SaveOptions.compress (stage C: whole compressed files byte for byte); mutated files include compressed ones; directed re-save inputs: '
        'XBin files in 512-character mode using pages {0,1} / only 0 / only 1, with and without the font block (hand-made and derived from the writer\'s own files), IDF files 81..300 columns wide with repeat headers crossing column 80; '
        'files with their SAUCE bytes for all five formats. A case is non-trivial when the writer produced a file (or the loader accepted the mutated file); distinct = distinct (format, size, options, content).')
LEVEL_TEXT = ('Machine-checked proof (Coq, closed under the global context) for all five formats that save-then-load reproduces the picture, for pictures of EVERY size the format admits and every cell content: '
              'BIN (even width 2..510, any height, all modes) and Tundra (width 1..1000, arbitrary 24-bit colours compared as displayed) as the BYTES Buffer::to_bytes(.., save_sauce) writes and Buffer::from_bytes reads '
              '(composition with C11: the width travels through the SAUCE record, the record is cut off exactly), ADF (80 columns, any number of rows incl. none, six-bit palette through the 64-register EGA block, 8x16 font), '
              'XBin whole files with uncompressed AND compressed data (width 1..4096, height 0..65535, palette block, one or two fonts of height 1..32 with attribute bit 3 as font page, blink or ice; with or without SAUCE bytes), '
              'IDF plain and run-length compressed (1..200 rows, every header width 1..65536: what lies right of the loader\'s 80-column layer is not stored and comes back unchanged). '
              'XBin compression is transparent on FILES (composition with C06): for every picture whose size, palette and fonts the format admits - any cells, any one or two font pages - the compressed file exists iff the uncompressed one does, '
              'both load to one and the same buffer (font page per cell included), and the compressed file is header + blocks + exactly one stream the specification decoder accepts with nothing behind it. '
              '`representable_*` spell out what each format can carry; the conclusion is equality of width, height, mode class, every character, displayed colours, blink, font page, embedded palette and glyph tables. '
              'Re-save stability (load ANY byte string the loader accepts, save, load again: same picture) is proved for all five formats: BIN and ADF without size conditions, '
              'XBin for EVERY accepted file (256- and 512-character mode, compressed or not, saved with either writer; a file whose cells all sit on page 1 comes back as a one-font file with equal glyphs), '
              'IDF for every accepted file of at most 200 rows, Tundra (position jumps included, any SAUCE record) for pictures of non-negative height below 2^30 cells. '
              'The two known findings are proved to be the EXACT exceptions: an accepted IDF file cannot be saved again iff it has more than 200 rows; an accepted XBin file iff it loads with a page-1 cell and no second font. '
              'The models are compared with the real Buffer::to_bytes / from_bytes byte for byte and cell for cell on every run (incl. error and panic branches, compressed whole files, files with SAUCE bytes, 512-character re-saves); '
              'constants and tables are regenerated from the source. The theorems are about the code after eight small fix commits (XBin/ADF heights below 25, three Tundra colour defects, IDF double repeat header, empty font-page list).')
LEVEL_NOTE = ('Trusted: Coq kernel + vm_compute; the python translator for constants/tables; the hand-written writer/loader models (C05 file level, C06 compressor, C02 fixed loaders, C11 SAUCE record), tied by differential '
              'execution against the real code on every run (bytes and complete buffers, via block digests); chrono\'s date parser as an oracle; no axioms. Still by search only: BIN/ADF files with a foreign SAUCE record, '
              'Tundra pictures of 2^30 cells or more.')
TECHNIQUE = ('Coq proof by induction over rows, cells, run-length tokens and colour-change streams on a ragged-line layer model with get-after-set laws; loader/writer state invariants '
             '(palette extension monotonicity for Tundra; a layer invariant preserved by every set_char of the compressed and uncompressed XBin readers on arbitrary bytes); composition lemmas between the models of '
             'four properties (C05 file level, C06 compressor and trace readers, C02 layer readers, C11 SAUCE split): trace-to-layer refinement, codec equality on all cells, font-page renumbering; '
             'finite vm_compute sweeps for attribute bytes, six-bit channels and flag bits; translator tie for constants, differential tie for function bodies')
