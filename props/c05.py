"""C05 — binary art formats (BIN, ADF, XBin, IDF, Tundra) reproduce what was saved (DESIGN.md section 7, C05).

Stage C runs random pictures per the quantifier through the real `Buffer::to_bytes` / `Buffer::from_bytes` and through the
Coq model (Model/C05*.v): file bytes are compared byte for byte, loaded buffers field for field and cell for cell; mutated
files go through load / save / load on both sides.
Stage S states the property on the real code: the round trip itself (size, characters, displayed colours, blink, mode,
embedded palette and fonts), spec-derived decoders for BIN and ADF written here from doc/FileFormats, and re-save
stability on mutated files."""
import json, os, re

ID = 'C05'
GENERATORS = ['gen_codepage', 'gen_formats']
COQ_TARGETS = ['Props/C05.vo', 'Run/RunC05.vo']
PROPS_MODULE = 'Props.C05'
THEOREMS = []            # filled in below (kept next to the descriptions)
SWEEP_LEMMAS = []

FMTS = ['bin', 'adf', 'xb', 'idf', 'tnd']
FNO = {f: i for i, f in enumerate(FMTS)}
IMPORTS = 'From IE Require Import Model.C05Buf Run.RunC05.\nLocal Open Scope N_scope.'
BOLD, BLINK = 1, 8
DOS = [(0, 0, 0), (0, 0, 170), (0, 170, 0), (0, 170, 170), (170, 0, 0), (170, 0, 170), (170, 85, 0), (170, 170, 170),
       (85, 85, 85), (85, 85, 255), (85, 255, 85), (85, 255, 255), (255, 85, 85), (255, 85, 255), (255, 255, 85), (255, 255, 255)]
EGA_OFFSETS = [0, 1, 2, 3, 4, 5, 20, 7, 56, 57, 58, 59, 60, 61, 62, 63]   # doc: the 16 text colours are DAC registers of these EGA indices

def expand6(c): return ((c << 2) | (c >> 4)) & 255

# --------------------------------------------------------------------------- pictures
def mix(seed, i):
    x = (seed ^ (i * 0x9E3779B1)) & 0xFFFFFFFF
    x ^= x >> 16; x = (x * 0x85EBCA6B) & 0xFFFFFFFF
    x ^= x >> 13; x = (x * 0xC2B2AE35) & 0xFFFFFFFF
    x ^= x >> 16
    return x

def pat_font(k, n):
    return [((i * k + i // 7 + k) & 255) for i in range(n)]

class Pic:
    """w, h, mode (IceMode byte), cells: list of (ch, fg, bg, attr, page) or ('@', seed, chmod, fgn, bgn, mask, pages),
    pal: list of (r,g,b) or None (DOS default), fonts: {slot: (height, ('pat', k) | ('hex', bytes))} or None"""
    def __init__(self, w, h, mode, cells, pal=None, fonts=None):
        self.w, self.h, self.mode, self.cells, self.pal, self.fonts = w, h, mode, cells, pal, fonts

    def cell_list(self):
        if self.cells and self.cells[0] == '@':
            _, seed, chmod, fgn, bgn, mask, pages = self.cells
            out = []
            for i in range(self.w * self.h):
                a = mix(seed, i); b = mix(seed ^ 0x5bd1e995, i)
                if chmod == 0: ch = a & 255
                elif chmod == 1: ch = (a & 255) % 7
                elif chmod == 2: ch = ((a >> 8) & 255) if a & 3 == 0 else 65 + (i // 5 % 3)
                else: ch = 32 + a % 95
                out.append((ch, (a >> 8) % fgn, (a >> 20) % bgn, b & mask, (b >> 16) % pages))
            return out
        return self.cells

    def font_bytes(self, slot):
        h, (kind, v) = self.fonts[slot]
        return h, (pat_font(v, 256 * h) if kind == 'pat' else list(v))

    def palette(self):
        return self.pal if self.pal is not None else DOS

    def args(self):
        if self.cells and self.cells[0] == '@':
            cs = '@' + ','.join(str(x) for x in self.cells[1:])
        else:
            cs = ''.join('%04x%04x%04x%04x%02x' % c for c in self.cells) or '-'
        pal = '-' if self.pal is None else ''.join('%02x%02x%02x' % c for c in self.pal)
        if self.fonts is None: fs = '-'
        else:
            fs = ','.join('%d:%d:%s' % (s, h, ('@%d' % v) if kind == 'pat' else ''.join('%02x' % x for x in v))
                          for s, (h, (kind, v)) in sorted(self.fonts.items()))
        return '%d %d %d %s %s %s' % (self.w, self.h, self.mode, cs, pal, fs)

    def coq(self):
        cells = '(cells_of [' + '; '.join(str(c[0] + (c[1] << 16) + (c[2] << 48) + (c[3] << 80) + (c[4] << 96)) for c in self.cell_list()) + '])'
        pal = 'dflt_pal' if self.pal is None else '[' + '; '.join('(%d, %d, %d)' % c for c in self.pal) + ']'
        if self.fonts is None: fs = 'dflt_fonts'
        else:
            table = {0: '(0, default_font)'}
            for s, (h, (kind, v)) in self.fonts.items():
                table[s] = '(%d, %s)' % (s, ('patf %d %d' % (v, h)) if kind == 'pat' else 'mkf %d [%s]' % (h, '; '.join(map(str, v))))
            fs = '[' + '; '.join(table[s] for s in sorted(table)) + ']'
        return '(mkpic %d%%Z %d%%Z %d %s %s %s)' % (self.w, self.h, self.mode, cells, pal, fs)

    def brief(self):
        return {'w': self.w, 'h': self.h, 'mode': self.mode, 'palette': 'default' if self.pal is None else len(self.pal),
                'fonts': None if self.fonts is None else {s: h for s, (h, _) in self.fonts.items()},
                'cells': (list(self.cells) if self.cells and self.cells[0] == '@' else [list(c) for c in self.cells[:400]])}

    @staticmethod
    def from_brief(d):
        cells = d['cells']
        cells = tuple(cells) if cells and cells[0] == '@' else [tuple(c) for c in cells]
        return Pic(d['w'], d['h'], d['mode'], cells, d.get('pal'), d.get('fontspec'))

def six_bit_palette(rng, n=16):
    return [tuple(expand6(rng.randrange(64)) for _ in range(3)) for _ in range(n)]

def rand_cells16(rng, n, mode, pages=1, fgmax=16, style=None):
    """cells an 8-bit attribute byte can carry in `mode`; styles: random bytes, runs, control-range characters"""
    style = style or rng.choice(['rand', 'rand', 'runs', 'ctrl', 'text'])
    out = []
    prev = None
    for i in range(n):
        if style == 'runs' and prev is not None and rng.random() < 0.7:
            out.append(prev); continue
        if style == 'ctrl': ch = rng.choice([0, 1, 2, 3, 4, 5, 6, 1, 1, rng.randrange(256)])
        elif style == 'text': ch = 32 + rng.randrange(95)
        else: ch = rng.randrange(256)
        fg = rng.randrange(fgmax)
        at = 0
        if mode == 2: bg = rng.randrange(16)
        else:
            bg = rng.randrange(8)
            if rng.random() < 0.3: at |= BLINK
        if style == 'ctrl' and rng.random() < 0.5: fg, bg, at = 0, 0, 0          # the (1, attribute 0) pattern of IDF
        if fgmax == 16 and fg < 8 and rng.random() < 0.15: at |= BOLD            # bold folds into the high-intensity foreground
        prev = (ch, fg, bg, at, rng.randrange(pages))
        out.append(prev)
    return out

def gen_pic(rng, fmt, big=False):
    """a picture the format can carry, per the quantifier of the property"""
    if fmt == 'bin':
        w = 2 * rng.choice([1, 2, 40, 80, 255, rng.randint(1, 255), rng.randint(1, 60)])
        h = rng.choice([1, 1, 2, 10, 25, 26, rng.randint(1, 60)])
        if w * h > 6000: h = max(1, 6000 // w)
        mode = rng.choice([0, 1, 2])
        return Pic(w, h, mode, rand_cells16(rng, w * h, mode))
    if fmt == 'adf':
        h = rng.choice([1, 2, 10, 24, 25, 26, rng.randint(1, 60)])
        fonts = {0: (16, ('pat', rng.randrange(1, 255)))} if rng.random() < 0.8 else None
        if fonts and rng.random() < 0.1: fonts = {0: (16, ('hex', [rng.randrange(256) for _ in range(4096)]))}
        return Pic(80, h, 2, rand_cells16(rng, 80 * h, 2), six_bit_palette(rng) if rng.random() < 0.8 else None, fonts)
    if fmt == 'idf':
        w = rng.choice([1, 2, 79, 80, 80, rng.randint(1, 80)])
        h = rng.choice([1, 2, 10, 25, 26, 200, rng.randint(1, 200)])
        if w * h > 6000: h = max(1, 6000 // w)
        fonts = {0: (16, ('pat', rng.randrange(1, 255)))} if rng.random() < 0.8 else None
        return Pic(w, h, 2, rand_cells16(rng, w * h, 2), six_bit_palette(rng) if rng.random() < 0.8 else None, fonts)
    if fmt == 'xb':
        w = rng.choice([1, 2, 80, 80, 160, 255, 256, 257, rng.randint(1, 300)])
        h = rng.choice([1, 2, 10, 24, 25, 26, 200, rng.randint(1, 200)])
        if w * h > 6000: h = max(1, 6000 // w)
        mode = rng.choice([1, 2])
        two = rng.random() < 0.4
        fh = rng.choice([1, 8, 14, 16, 16, 32, rng.randint(1, 32)])
        if two:
            fonts = {0: (fh, ('pat', rng.randrange(1, 255))), 1: (fh, ('pat', rng.randrange(1, 255)))}
            cells = rand_cells16(rng, w * h, mode, pages=2, fgmax=8)
            if not any(c[4] == 1 for c in cells) or not any(c[4] == 0 for c in cells):
                cells = cells[:-1] + [(cells[-1][0], cells[-1][1], cells[-1][2], cells[-1][3], 1 - cells[0][4])] if len(cells) > 1 else cells
                if len({c[4] for c in cells}) < 2: two = False
        if not two:
            fonts = {0: (fh, ('pat', rng.randrange(1, 255)))} if rng.random() < 0.7 else None
            cells = rand_cells16(rng, w * h, mode)
        return Pic(w, h, mode, cells, six_bit_palette(rng) if rng.random() < 0.7 else None, fonts)
    # tnd
    w = rng.choice([1, 2, 80, 80, 81, 160, 1000, rng.randint(1, 200)])
    h = rng.choice([1, 2, 10, 25, 26, rng.randint(1, 60)])
    if w * h > 6000: h = max(1, 6000 // w)
    ncol = rng.choice([2, 16, 17, 40, 300])
    pal = [tuple(rng.randrange(256) for _ in range(3)) for _ in range(ncol)]
    if rng.random() < 0.5: pal[0] = (0, 0, 0)
    if rng.random() < 0.3: pal[rng.randrange(ncol)] = pal[rng.randrange(ncol)]      # duplicate colours
    style = rng.choice(['rand', 'runs', 'ctrl', 'text'])
    cells = []; prev = None
    for i in range(w * h):
        if style == 'runs' and prev is not None and rng.random() < 0.7: cells.append(prev); continue
        ch = rng.choice([0, 1, 2, 3, 4, 5, 6, rng.randrange(256)]) if style == 'ctrl' else (32 + rng.randrange(95) if style == 'text' else rng.randrange(256))
        if rng.random() < 0.5 and prev is not None: prev = (ch, prev[1], prev[2], 0, 0)
        else: prev = (ch, rng.randrange(ncol), rng.randrange(ncol), 0, 0)
        cells.append(prev)
    return Pic(w, h, 2, cells, pal, None)

def save_opts(rng, fmt):
    """(compress, save_sauce) as the format needs: BIN and Tundra carry their width in the SAUCE record"""
    if fmt in ('bin', 'tnd'): return 0, 1
    if fmt == 'idf': return rng.randrange(2), rng.randrange(2)
    return 0, rng.randrange(2)

# --------------------------------------------------------------------------- parsing harness / model output
def parse_load(v, i):
    if i >= len(v): return None, i
    if v[i] != 1: return ('fail', v[i:i + 2]), len(v)
    i += 1
    d = {}
    (d['w'], d['h'], d['ice'], d['lw'], d['lh'], d['lines'], d['pm'], d['fm'], npal) = v[i:i + 9]; i += 9
    d['pal'] = [tuple(v[i + 3 * k:i + 3 * k + 3]) for k in range(npal)]; i += 3 * npal
    nf = v[i]; i += 1; d['fonts'] = {}
    for _ in range(nf):
        slot, fw, fh, ln, nd = v[i:i + 5]; i += 5
        d['fonts'][slot] = (fw, fh, ln, v[i:i + nd]); i += nd
    n = d['w'] * d['h']
    d['cells'] = [tuple(v[i + 5 * k:i + 5 * k + 5]) for k in range(n)]; i += 5 * n
    return d, i

def parse_rt(v, i=0):
    """-> (bytes or None, load dict | ('fail', ..) | None, next index)"""
    if v[i] != 1: return None, None, len(v)
    n = v[i + 1]; b = v[i + 2:i + 2 + n]
    d, j = parse_load(v, i + 2 + n)
    return b, d, j

SAUCE_ID = [0x1A] + list(b'SAUCE00')

def split_sauce(b):
    """file bytes -> (data, sauce tail or None) for files written by Buffer::to_bytes with save_sauce (no comments)"""
    if len(b) >= 129 and b[-129:-121] == SAUCE_ID: return b[:-129], b[-129:]
    return b, None

def norm_impl(r, sauce):
    """harness result -> comparable list: strip the SAUCE tail from the saved bytes (it carries today's date)"""
    if r is None: return None
    if r[0] == 'panic': return [-1]
    if r[0] == 'err' and 'picture-too-large' in str(r[1]): return [-2]
    if r[0] != 'ok': return [r[0]]
    v = r[1]
    if v[0] != 1: return [0]
    n = v[1]; b = v[2:2 + n]; rest = v[2 + n:]
    data, tail = split_sauce(b)
    if sauce and tail is None: return ['no-sauce-record']
    if not sauce and tail is not None and False: return ['unexpected-sauce']
    if not sauce: data = b
    if rest and rest[0] != 1: rest = [0]
    return [1, len(data)] + data + rest

def norm_model(m):
    return m

def norm_impl_load(r):
    if r is None: return None
    if r[0] != 'ok': return [r[0]]
    return [0] if r[1][0] != 1 else r[1]

def norm_model_load(m):
    if m is None: return None
    if m[0] == -1: return ['panic']
    if m[0] == 0: return [0]
    return m

def digest(l):
    """same function as Run/RunC05.v digest: length, then (sum x, sum i*x, sum i*i*x) per block of 64 values"""
    if l is None: return None
    if any(isinstance(x, str) for x in l): return l
    out = [len(l)]
    for k in range(0, len(l), 64):
        blk = l[k:k + 64]
        out += [sum(blk), sum((i + 1) * x for i, x in enumerate(blk)), sum((i + 1) * (i + 1) * x for i, x in enumerate(blk))]
    return out

def first_diff(a, b):
    if a is None or b is None: return 0
    for i, (x, y) in enumerate(zip(a, b)):
        if x != y: return i
    return min(len(a), len(b))

# --------------------------------------------------------------------------- stage C
def mutate(rng, data, header_len):
    """a mutated copy of the data part of a valid file"""
    d = list(data)
    k = rng.randrange(6)
    if k == 0 and len(d) > header_len:                       # truncate inside the cell data
        d = d[:rng.randrange(header_len, len(d))]
    elif k == 1:                                             # extend
        d += [rng.randrange(256) for _ in range(rng.randrange(1, 40))]
    elif k == 2 and len(d) > header_len:                     # flip bytes in the cell data
        for _ in range(rng.randrange(1, 8)):
            d[rng.randrange(header_len, len(d))] = rng.choice([0, 1, 2, 4, 6, 255, rng.randrange(256)])
    elif k == 3 and len(d) > 12:                             # flip a header byte
        d[rng.randrange(min(len(d), header_len or 12))] = rng.randrange(256)
    elif k == 4 and len(d) > header_len + 4:                 # delete one byte (shifts the pairing)
        del d[rng.randrange(header_len, len(d))]
    return d

def sauce_of(fmt, pic):
    """(coq sauce option, as the loader sees the record the writer appended)"""
    if fmt == 'bin': return 'Some (mkSauce %d%%Z 25%%Z %s)' % (2 * ((pic.w // 2) % 256), 'true' if pic.mode == 2 else 'false')
    if fmt == 'adf': return 'Some (mkSauce %d%%Z %d%%Z %s)' % (pic.w, pic.h, 'true' if pic.mode == 2 else 'false')
    if fmt == 'xb': return 'Some (mkSauce %d%%Z %d%%Z false)' % (pic.w, pic.h)
    if fmt == 'idf': return 'None'
    return 'Some (mkSauce %d%%Z 0%%Z false)' % pic.w

def header_len(fmt, data):
    if fmt == 'bin': return 0
    if fmt == 'adf': return 4289
    if fmt == 'idf': return 12
    if fmt == 'tnd': return 9
    if len(data) < 11: return 0
    n = 11; fl = data[10]; fh = data[9] or 16
    if fl & 1: n += 48
    if fl & 2: n += 256 * fh * (2 if fl & 16 else 1)
    return n

def corr_cases(ctx):
    rng = ctx.rng
    cases = []
    per = ctx.n(60, 400)
    for fmt in FMTS:
        for k in range(per):
            pic = gen_pic(rng, fmt)
            comp, sauce = save_opts(rng, fmt)
            if k % 10 == 9:                                  # error branches of the writers
                pic = spoil(rng, fmt, pic)
                if fmt == 'bin' and rng.random() < 0.5: sauce = 0
            cases.append({'kind': 'rt', 'fmt': fmt, 'pic': pic, 'comp': comp, 'sauce': sauce})
    return cases

def spoil(rng, fmt, pic):
    """make the picture unrepresentable in one way (exercises the Err branches and the lossy paths)"""
    k = rng.randrange(6)
    cells = list(pic.cell_list())
    if k == 0 and cells: cells[rng.randrange(len(cells))] = (rng.randrange(256, 2000), 1, 0, 0, 0)        # char > 255
    elif k == 1: return Pic(pic.w, pic.h, rng.choice([0, 1, 2]), cells, pic.pal, pic.fonts)               # other mode
    elif k == 2: return Pic(pic.w, pic.h, pic.mode, cells, (pic.palette() + [(1, 2, 3)])[:rng.choice([3, 17])], pic.fonts)
    elif k == 3 and cells: cells[rng.randrange(len(cells))] = cells[0][:4] + (rng.choice([1, 2, 3]),)     # more font pages
    elif k == 4 and cells: cells = [(c[0], c[1] + 16 * rng.randrange(3), c[2] + 8, c[3], c[4]) for c in cells]  # colours out of range
    elif k == 5:
        w = max(1, pic.w + rng.choice([-1, 1, 2, 81])); n = w * pic.h
        cells = (cells * (n // max(1, len(cells)) + 1))[:n]
        return Pic(w, pic.h, pic.mode, cells, pic.pal, pic.fonts)
    return Pic(pic.w, pic.h, pic.mode, cells, pic.pal, pic.fonts)

def correspondence(ctx):
    rng = ctx.rng
    cases = corr_cases(ctx)
    impl = ctx.impl(['c5rt %s %d %d %s' % (c['fmt'], c['comp'], c['sauce'], c['pic'].args()) for c in cases], per_case_timeout=30)
    exprs = ['run_rt %d %s %s %s' % (FNO[c['fmt']], 'true' if c['comp'] else 'false', 'true' if c['sauce'] else 'false', c['pic'].coq()) for c in cases]
    # second wave: mutated files through load / save / load on both sides
    mcases = []
    nmut = ctx.n(40, 250)
    by_fmt = {f: [] for f in FMTS}
    for c, r in zip(cases, impl):
        if r and r[0] == 'ok' and r[1][0] == 1 and c['pic'].w * c['pic'].h <= 2500:
            n = r[1][1]; by_fmt[c['fmt']].append((c, r[1][2:2 + n]))
    for fmt in FMTS:
        pool = by_fmt[fmt]
        if not pool: continue
        for _ in range(nmut):
            c, b = rng.choice(pool)
            data, tail = split_sauce(b) if c['sauce'] else (b, None)
            d2 = mutate(rng, data, header_len(fmt, data))
            if len(d2) > 60000: continue
            if fmt == 'xb' and len(d2) > 10 and d2[10] & 4: continue      # compressed data layout: property C06, not modelled here
            mcases.append({'kind': 'resave', 'fmt': fmt, 'data': d2, 'tail': tail, 'pic': c['pic'], 'comp': c['comp'], 'sauce': c['sauce']})
    mimpl = ctx.impl(['c5resave %s %d %d %s' % (c['fmt'], c['comp'], c['sauce'], hexs(c['data'] + (c['tail'] or []))) for c in mcases], per_case_timeout=30)
    for c in mcases:
        s = sauce_of(c['fmt'], c['pic']) if c['tail'] else 'None'
        exprs.append('run_resave %d %s %s [%s] (%s)' % (FNO[c['fmt']], 'true' if c['comp'] else 'false', 'true' if c['sauce'] else 'false',
                                                       '; '.join(map(str, c['data'])), s))
    weights = [c['pic'].w * c['pic'].h + 2000 for c in cases] + [len(c['data']) + 4000 for c in mcases]
    model = model_eval(ctx, IMPORTS, ['digest (%s)' % e for e in exprs], weights)
    dis = []; dist = {}; nontrivial = set(); outcomes = {}
    allc = cases + mcases
    norm = [norm_impl(r, c['sauce']) for c, r in zip(cases, impl)] + [norm_resave_impl(r, c['sauce']) for c, r in zip(mcases, mimpl)]
    bad = [i for i in range(len(allc)) if norm[i] is None or model[i] is None or digest(norm[i]) != model[i]]
    # the cases whose digests differ are evaluated again in full to locate the first difference
    full = model_eval(ctx, IMPORTS, [exprs[i] for i in bad[:6]], None) if bad else []
    for k, c in enumerate(allc):
        a = norm[k]
        key = '%s %s' % (c['fmt'], c['kind']); dist[key] = dist.get(key, 0) + 1
        if c['kind'] == 'rt':
            oc = 'save-refused' if a == [0] else ('save-or-load-panics' if a == [-1] else (a[0] if a and isinstance(a[0], str) else 'saved+loaded'))
            if a and a[0] == 1: nontrivial.add((c['fmt'], c['pic'].w, c['pic'].h, hash(tuple(c['pic'].cell_list()[:50]))))
        else:
            oc = 'mutated:' + ('load-refused' if a == [0] else ('panics' if a == [-1] else (a[0] if a and isinstance(a[0], str) else 'loaded')))
            if a and a[0] == 1: nontrivial.add((c['fmt'], 'm', hash(tuple(c['data'][-80:])), len(c['data'])))
        outcomes[oc] = outcomes.get(oc, 0) + 1
    for j, k in enumerate(bad):
        c = allc[k]; a = norm[k]; b = full[j] if j < len(full) else None
        i = first_diff(a, b)
        d = {'case': 'c5%s %s %d %d' % (c['kind'], c['fmt'], c['comp'], c['sauce']), 'fmt': c['fmt'], 'comp': c['comp'], 'sauce': c['sauce'], 'kind': c['kind'],
             'first_difference_at': i, 'impl': None if a is None else a[max(0, i - 2):i + 6], 'model': None if b is None else b[max(0, i - 2):i + 6],
             'lengths': [a and len(a), b and len(b)]}
        if c['kind'] == 'rt':
            d.update({'picture': c['pic'].brief(), 'fontspec': fontspec(c['pic']), 'pal': c['pic'].pal})
        else:
            d.update({'file': hexs(c['data'] + (c['tail'] or []))[:200000]})
        dis.append(d)
    return {'cases': len(cases) + len(mcases), 'disagreements': dis, 'distinct_nontrivial': len(nontrivial),
            'distribution': {'kinds': dist, 'outcomes': outcomes, 'model_errors': getattr(ctx, 'model_errors', [])[:2]},
            'samples': [('c5rt %s %d %d %s' % (c['fmt'], c['comp'], c['sauce'], c['pic'].args()))[:160] for c in cases[:3]]}

def fontspec(pic):
    if pic.fonts is None: return None
    return {s: [h, [kind, v if kind == 'pat' else list(v)]] for s, (h, (kind, v)) in pic.fonts.items()}

def hexs(b):
    return ''.join('%02x' % x for x in b) or '-'

def norm_resave_impl(r, sauce):
    if r is None: return None
    if r[0] == 'panic': return [-1]
    if r[0] == 'err' and 'picture-too-large' in str(r[1]): return [-2]
    if r[0] != 'ok': return [r[0]]
    v = r[1]
    if v[0] != 1: return [0]
    d, i = parse_load(v, 0)
    first = v[:i]
    rest = v[i:]
    if not rest: return first + ['missing']
    if rest[0] != 1: return first + [0]
    return first + norm_impl(('ok', rest), sauce)

def norm_resave_model(m):
    return m

def model_eval(ctx, imports, exprs, weights=None, shards=16, timeout=1500):
    """ctx.model with weight-balanced shards (pictures differ a lot in size); same file layout and parser as the driver"""
    import subprocess
    from vlib import driver
    cdir = os.path.join(driver.COQ, 'Cases')
    os.makedirs(cdir, exist_ok=True)
    n = len(exprs)
    if n == 0: return []
    weights = weights or [1] * n
    shards = max(1, min(shards, n))
    load = [0] * shards; idxs = [[] for _ in range(shards)]
    for i in sorted(range(n), key=lambda i: -weights[i]):
        s = load.index(min(load)); idxs[s].append(i); load[s] += weights[i]
    out = [None] * n
    procs = []
    for s in range(shards):
        idx = sorted(idxs[s])
        if not idx: continue
        path = os.path.join(cdir, '%s_m%d.v' % (ctx.pid, s))
        with open(path, 'w') as f:
            f.write('From Coq Require Import NArith ZArith List String.\nImport ListNotations.\n')
            f.write(imports + '\nSet Printing Width 1000000.\nSet Printing Depth 10000000.\n')
            for i in idx:
                f.write('Eval vm_compute in (%s).\n' % exprs[i])
        of = open(path[:-2] + '.out', 'w')
        p = subprocess.Popen(['coqc', '-noglob', '-Q', driver.COQ, 'IE', path], stdout=of, stderr=subprocess.STDOUT,
                             cwd=driver.COQ, preexec_fn=driver._big_stack)
        procs.append((p, idx, path, of))
    ctx.model_errors = []
    for p, idx, path, of in procs:
        try: p.wait(timeout=timeout)
        except subprocess.TimeoutExpired:
            p.kill(); p.wait()
        of.close()
        with open(path[:-2] + '.out', errors='replace') as f: o = f.read()
        vals = []; cur = None
        for line in o.splitlines():
            if line.startswith('     = '): cur = [line[7:]]
            elif line.startswith('     : '):
                if cur is not None: vals.append(' '.join(cur)); cur = None
            elif cur is not None: cur.append(line)
        if p.returncode != 0 or len(vals) != len(idx):
            ctx.model_errors.append(o[-2000:])
        for k, i in enumerate(idx):
            if k < len(vals):
                out[i] = [int(x) for x in re.findall(r'-?\d+', vals[k])]
        try: os.remove(path[:-2] + '.out')
        except OSError: pass
    return out
