"""C02 input generators: seed files from the engine's own writers and the mutations the property's quantifier names
(every truncation, single-/multi-byte corruption, header-field extremes, random bytes, SAUCE tails)."""
import struct

EXTS = ['ans', 'ice', 'diz', 'icy', 'idf', 'bin', 'xb', 'tnd', 'pcb', 'avt', 'asc', 'adf', 'msg',
        'an1', 'an2', 'an3', 'an4', 'an5', 'an6', 'an7', 'an8', 'an9', 'seq', 'ata', 'zzz']
BINARY = ['bin', 'adf', 'xb', 'idf', 'tnd']
# one representative per loader (an2..an9, ice, diz, zzz share a loader with an1 / ans)
LOADER_OF = {'ice': 'ans', 'diz': 'ans', 'zzz': 'ans'}
for _k in range(2, 10):
    LOADER_OF['an%d' % _k] = 'an1'

def hexs(bs):
    return bytes(bs).hex() or '-'

def unhex(h):
    return b'' if h == '-' else bytes.fromhex(h)

def seed_specs(rng, n_per_ext, exts=None):
    """c2mk cases: (ext, case string)"""
    out = []
    for ext in (exts or [e for e in EXTS if e not in LOADER_OF]):
        for k in range(n_per_ext):
            if ext in ('adf', 'idf'):
                w, h = 80, rng.choice([1, 2, 3])
            elif ext == 'bin':
                w, h = rng.choice([(160, 2), (160, 1), (8, 3), (40, 2)])
            elif ext == 'seq' or ext == 'ata':
                w, h = 40, rng.choice([2, 3, 5])
            else:
                w, h = rng.choice([(80, 2), (80, 3), (16, 4), (40, 3), (7, 5)])
            style = rng.choice([0, 1, 2, 3]) if ext in BINARY + ['icy', 'ans'] else rng.choice([1, 2, 3])
            out.append((ext, 'c2mk %s %d %d %d %d %d %d' % (ext, w, h, rng.randrange(1 << 30), k % 2, rng.randrange(2), style)))
        if ext in BINARY + ['icy', 'ans']:
            # always: an art-like picture (trailing blanks -> run-length records at the end of the data), compressed and not
            for comp in (1, 0):
                out.append((ext, 'c2mk %s %d %d %d %d %d %d' % (ext, 80 if ext in ('adf', 'idf') else (160 if ext == 'bin' else 40), 3, rng.randrange(1 << 30), 0, comp, 3)))
    return out

# ---------------------------------------------------------------------------------- SAUCE tails
def sauce_record(rng, kind=0, comments=0, w=None, h=None, dtype=None, ftype=None):
    """a 128-byte record starting with 'SAUCE'; kind 0: well-formed, 1: random tail, 2: bad version, 3: bad date"""
    if kind == 1:
        return b'SAUCE' + bytes(rng.randrange(256) for _ in range(123))
    ver = b'00' if kind != 2 else bytes([rng.randrange(256), rng.randrange(256)])
    date = b'20240131' if kind != 3 else bytes(rng.choice(b'0123456789 xZ\xff-+') for _ in range(8))
    rec = b'SAUCE' + ver + b'title'.ljust(35) + b'author'.ljust(20) + b'group'.ljust(20) + date
    rec += struct.pack('<I', rng.randrange(1 << 32))
    rec += bytes([rng.randrange(9) if dtype is None else dtype, rng.randrange(10) if ftype is None else ftype])
    ws = rng.choice([0, 1, 2, 80, 160, 999, 1000, 1001, 4096, 0x7fff, 0x8000, 0xffff]) if w is None else w
    hs = rng.choice([0, 1, 2, 25, 100]) if h is None else h
    rec += struct.pack('<HHHH', ws, hs, rng.choice([0, 1, 0xffff]), rng.randrange(1 << 16))
    rec += bytes([comments, rng.choice([0, 1, 2, 3, 0x1f, 0xff])]) + rng.choice([b'IBM VGA', b'IBM VGA50', b'Amiga Topaz 1', b'xx', b'\xff\xfe']).ljust(22, b'\0')
    assert len(rec) == 128
    return rec

def sauce_tail(rng):
    """what is appended to a file: EOF byte?, comment block?, record"""
    r = rng.random()
    if r < 0.25:
        return sauce_record(rng, 1)
    nc = rng.choice([0, 0, 1, 2, 3, 255])
    kind = rng.choice([0, 0, 0, 2, 3])
    rec = sauce_record(rng, kind, comments=nc)
    blk = b''
    if nc and rng.random() < 0.8:
        real = nc if rng.random() < 0.7 else rng.randrange(0, 4)
        blk = (b'COMNT' if rng.random() < 0.85 else b'COMNX') + b''.join(b'comment line'.ljust(64) for _ in range(real))
    eof = b'\x1a' if rng.random() < 0.8 else b''
    return eof + blk + rec

# ---------------------------------------------------------------------------------- mutations
EXTREMES16 = [0, 1, 0x7fff, 0x8000, 0xffff, 4096, 4097, 1000, 1001]
EXTREMES32 = [0, 1, 0x7fffffff, 0x80000000, 0xffffffff, 0xffff, 0x10000]

def truncations(data, limit=None, rng=None):
    n = len(data)
    if limit is None or n + 1 <= limit:
        return [data[:k] for k in range(n + 1)]
    ks = set(range(0, min(n, 64))) | set(range(max(0, n - 24), n + 1)) | {rng.randrange(n) for _ in range(limit)}
    return [data[:k] for k in sorted(ks)][:limit + 90]

NUM_EXTREMES = [b'0', b'1', b'255', b'256', b'65535', b'65536', b'2147483647', b'2147483648', b'4294967295', b'4294967296',
                b'9223372036854775807', b'9223372036854775808', b'18446744073709551615', b'18446744073709551616',
                b'4611686018427387904', b'1000000000000', b'99999999999999999999999999', b'-1', b'00000000000000000001', b'']

def text_number_extremes(data):
    """every decimal number token of a text file replaced, one at a time, by each extreme value"""
    import re
    out = []
    for m in re.finditer(rb'\d+', data):
        for e in NUM_EXTREMES:
            out.append(data[:m.start()] + e + data[m.end():])
    return out

def corrupt1(rng, data, header=64):
    if not data: return data
    d = bytearray(data)
    p = rng.randrange(min(len(d), header)) if rng.random() < 0.6 else rng.randrange(len(d))
    d[p] = rng.choice([0, 1, 2, 4, 6, 0x1a, 0x1b, 0x7f, 0x80, 0xc0, 0xff, rng.randrange(256), rng.randrange(256)])
    return bytes(d)

def corrupt_many(rng, data):
    d = bytearray(data)
    for _ in range(rng.choice([2, 3, 5, 8, 16])):
        if not d: break
        d[rng.randrange(len(d))] = rng.randrange(256)
    r = rng.random()
    if r < 0.2 and len(d) > 4:   # drop a slice
        a = rng.randrange(len(d)); b = min(len(d), a + rng.randrange(1, 40)); del d[a:b]
    elif r < 0.35:               # insert noise
        a = rng.randrange(len(d) + 1); d[a:a] = bytes(rng.randrange(256) for _ in range(rng.randrange(1, 20)))
    return bytes(d)

def header_extremes(rng, data, count, header=40):
    out = []
    n = min(len(data), header)
    for _ in range(count):
        d = bytearray(data)
        if n >= 4 and rng.random() < 0.4:
            p = rng.randrange(n - 3); d[p:p + 4] = struct.pack('<I', rng.choice(EXTREMES32))
        elif n >= 2:
            p = rng.randrange(n - 1); d[p:p + 2] = struct.pack('<H', rng.choice(EXTREMES16))
        out.append(bytes(d))
    return out

def random_bytes(rng, ext=None):
    n = rng.choice([0, 1, 2, 3, 5, 9, 11, 12, 20, 64, 129, 300, 4200, 4300]) if rng.random() < 0.5 else rng.randrange(0, 200)
    b = bytearray(rng.randrange(256) for _ in range(n))
    magic = {'xb': b'XBIN\x1a', 'tnd': b'\x18TUNDRA24', 'idf': b'\x041.4', 'adf': b'\x01', 'icy': b'\x89PNG\r\n\x1a\n'}.get(ext)
    if magic and rng.random() < 0.8:
        b[:len(magic)] = magic
    return bytes(b)

def mutants(rng, ext, seeds, budget, trunc_limit=None):
    """list of (label, bytes) for one extension; seeds = valid files of its loader"""
    out = []
    for s in seeds:
        out.append(('valid', s))
    if seeds:
        per = max(1, budget // (6 * len(seeds)))
        for s in seeds:
            base = s
            # strip a SAUCE the writer appended so that truncations hit the format, keep the full file as well
            for t in truncations(base, trunc_limit if trunc_limit is not None else per, rng):
                out.append(('trunc', t))
            for _ in range(per):
                out.append(('corrupt1', corrupt1(rng, base)))
            for _ in range(per):
                out.append(('corruptN', corrupt_many(rng, base)))
            for e in header_extremes(rng, base, per):
                out.append(('extreme', e))
            for _ in range(per):
                out.append(('sauce+', corrupt1(rng, base) [: rng.randrange(len(base) + 1) if rng.random() < 0.3 else len(base)] + sauce_tail(rng)))
    for _ in range(max(4, budget // 8)):
        out.append(('random', random_bytes(rng, ext)))
    for _ in range(max(4, budget // 16)):
        out.append(('random+sauce', random_bytes(rng, ext) + sauce_tail(rng)))
    for _ in range(max(2, budget // 32)):
        out.append(('sauce-only', sauce_record(rng, rng.choice([0, 1, 1, 2, 3]))))
    return out

# ---------------------------------------------------------------------------------- text formats: token streams
EMU_OF = {'ans': 0, 'ice': 0, 'diz': 0, 'zzz': 0, 'avt': 1, 'pcb': 2, 'msg': 3, 'asc': 5, 'seq': 6, 'ata': 7}
for _k in range(1, 10):
    EMU_OF['an%d' % _k] = 4

def text_streams(rng, ext, count):
    from props import termgen as tg
    emu = EMU_OF[ext]
    w, h = (40, 25) if ext in ('seq', 'ata') else (80, 25)
    toks = [t for t in tg.alphabet(emu, w, h) if b'9999' not in t[1]]
    out = []
    for i in range(count):
        r = rng.random()
        if r < 0.6:
            s, _ = tg.random_stream(rng, emu, w, h, rng.choice([2, 3, 5, 8, 20, 60]), toks=toks)
            out.append(('tokens', s))
        else:
            out.append(('malformed', tg.malformed_stream(rng, emu, rng.choice([4, 16, 64, 300]), huge=False)))
    return out

# ---------------------------------------------------------------------------------- IcyDraw: chunk payloads inside a valid container
def icy_payload_mutants(rng, seeds, count):
    """(label, file bytes): the zTXt payloads of valid files truncated / corrupted / with extreme fields, re-packed into a
    well-formed PNG container (so the bytes reach the chunk decoder instead of failing the PNG CRC)"""
    from props.lib_c07 import icy_chunks, make_icy
    out = []
    docs = []
    for s in seeds:
        try:
            docs.append(icy_chunks(s))
        except Exception:
            pass
    iced = struct.pack('<HIHBBBII', 0, 0, 0, 1, 1, 1, 80, 25)
    def lay(title=b'L', role=0, mode=0, w=2, h=1, length=0, body=b'', flags=1):
        return (struct.pack('<I', len(title)) + title + bytes([role]) + b'\0\0\0\0' + bytes([mode]) + b'\1\2\3\4' + struct.pack('<I', flags) + b'\0'
                + struct.pack('<iiiiHQ', 0, 0, w, h, 0, length) + body)
    short = b'\x00\x40AAAA'
    long_ = b'\x00\x00' + struct.pack('<IIIH', 0x41, 1, 2, 0)
    hand = [
        [('ICED', iced), ('LAYER_0', lay(body=short * 2, length=12)), ('END', b'')],
        [('ICED', iced), ('LAYER_0', lay(w=3, h=2, body=short + long_ + b'\x00\xc0' + b'\x00\x80' + short, length=32)), ('END', b'')],
        [('ICED', iced), ('LAYER_0', lay(w=2, h=3, body=short * 2, length=12)), ('LAYER_0~1', short + long_ + short), ('END', b'')],
        [('ICED', iced), ('LAYER_0', lay(role=1, body=struct.pack('<iiii', 8, 16, 1, 1) + b'sixeldata')), ('LAYER_0~1', b'more'), ('END', b'')],
        [('ICED', iced), ('FONT_0', struct.pack('<I', 4) + b'name' + b'\x36\x04\x00\x01' + bytes(256)), ('PALETTE', b'ICE-PALETTE\n#000000'), ('SAUCE', sauce_record(rng, 0)), ('LAYER_0', lay()), ('END', b'')],
    ]
    docs += hand
    for _ in range(count):
        d = [list(c) for c in rng.choice(docs)]
        if not d: continue
        k = rng.randrange(len(d))
        kw, pl = d[k]
        r = rng.random()
        if r < 0.35:
            pl = pl[:rng.randrange(len(pl) + 1)] if rng.random() < 0.5 else pl[:rng.randrange(min(len(pl), 60) + 1)]; lbl = 'payload-trunc'
        elif r < 0.55:
            pl = corrupt1(rng, pl); lbl = 'payload-corrupt1'
        elif r < 0.7:
            pl = corrupt_many(rng, pl); lbl = 'payload-corruptN'
        elif r < 0.85:
            e = header_extremes(rng, pl, 1, header=70); pl = e[0] if e else pl; lbl = 'payload-extreme'
        elif r < 0.92:
            kw = rng.choice(['LAYER_%d~%d' % (rng.choice([0, 1, 5, 99]), rng.randrange(3)), 'LAYER_x', 'FONT_%s' % rng.choice(['0', '1', 'x', '-1', '99999999999999999999']),
                             'ICED', 'SAUCE', 'PALETTE', 'END', 'LAYER_0', 'XYZ']); lbl = 'keyword'
        else:
            j = rng.randrange(len(d)); d[k], d[j] = d[j], d[k]; kw, pl = d[k]; lbl = 'chunk-order'
        d[k] = (kw, pl)
        try:
            out.append((lbl, make_icy(d)))
        except Exception:
            pass
    return out

def icy_payload_truncations(doc_chunks):
    """every truncation of every payload of one document"""
    from props.lib_c07 import make_icy
    out = []
    for k, (kw, pl) in enumerate(doc_chunks):
        for n in range(len(pl)):
            d = list(doc_chunks); d[k] = (kw, pl[:n])
            out.append(('payload-trunc-all', make_icy(d)))
    return out
