"""C14 — sixel images are complete rectangles and appear in arrival order (DESIGN.md section 7, C14)."""
import itertools

ID = 'C14'
GENERATORS = ['gen_sixel']
COQ_TARGETS = ['Props/C14.vo', 'Run/RunC14.vo']
PROPS_MODULE = 'Props.C14'
THEOREMS = ['sixel_rect', 'raster_declares_height', 'declared_height_kept', 'poll_never_blocks', 'arrival_order',
            'never_twice', 'screen_in_arrival_order', 'screen_is_spec', 'complete_spec', 'schedule_independent',
            'deliver_shadow', 'sixel_dims_bounded', 'max_dim_tied']
SWEEP_LEMMAS = []
TRUSTED = ['Coq 8.16.1 kernel + vm_compute (model evaluation); no axioms (Print Assumptions: closed)',
           'translator/gen_sixel.py (DOS_DEFAULT_PALETTE extraction, token pin of parse_next_number, MAX_SIXEL_DIMENSION and the three places of src/sixel_mod.rs that apply it)',
           'runtime facts assumed by Model/SixelQueue.v: VecDeque is FIFO; JoinHandle::is_finished() implies join() returns at once with the closure result',
           'harness/src/c14.rs incl. the cfg(icy_engine_verif) gate in Sixel::parse_from (src/verif_hooks.rs)',
           'Palette::set_color_hsl (f32 arithmetic) is a parameter of the model: the rectangle theorems hold for every behaviour of it']
UNMODELLED = ['real thread timing: only the gated schedules are exhibited against the implementation (the theorems cover every event sequence of the model)',
              'rendering of sixels into the RGBA image; sixels removed by screen clearing / scrolling',
              'HSL colour values (only the shape of HSL payloads is compared)']
ASSUMPTIONS = ['a decode result is a function of its payload only (outcome_of)', 'font cell is what Buffer::get_font_dimensions returns (8x16 default)']
RULE = ('sixel payloads built from a token grammar (data chars, !n repeats <= 500, $, -, #select, #define rgb/hsl, raster headers with 2/3/4 numbers '
        'declaring sizes smaller/equal/larger than the data, occasional invalid or non-ASCII characters; repeat counts / raster sizes / cursor rows at, just below and '
        'far beyond MAX_SIXEL_DIMENSION = 4096); queue schedules: k images with nested/overlapping '
        'rectangles incl. failing and panicking decodes, all k! completion orders x all placements of polls between completions (k<=3 quick, k<=4 thorough) '
        'plus random interleavings of arrivals; non-trivial = payload decodes to an image with at least one pixel row, or schedule with >= 2 images')

DATA = [chr(c) for c in range(63, 127)]
MAXD = 4096          # src/sixel_mod.rs MAX_SIXEL_DIMENSION (Gen/SixelGen.v carries the extracted value; Props/C14.v max_dim_tied)
# payloads around the size limit that are cheap for the list model (no wide pixel rows): refused ones and the largest accepted ones
LIMIT_PAYLOADS = ['!%d~' % (MAXD + 1), '!%d?' % MAXD, '!%d?~' % MAXD, '!%d$~' % MAXD, '!%d$' % (MAXD + 1), '"1;1;%d;1~' % (MAXD + 1), '"1;1;1;%d~' % (MAXD + 1),
                  '"1;1;2;%d~' % MAXD, '"1;1;%d~' % MAXD, '"1;1;%d~' % (MAXD + 1), '!%d-~' % MAXD, '!%d-~' % (MAXD // 6 + 1), '!%d-~' % (MAXD // 6), '!%d-~' % (MAXD // 6 - 1),
                  '"1;1;1;%d!%d-~' % (MAXD, MAXD // 6), '"1;1;1;%d!%d-~' % (MAXD, MAXD), '!2147483647~', '!2147483647-', '"1;1;99999;99999~', '"1;1;2147483647;2147483647~',
                  '"1;1;2147483647~', '!%d?!%d?~' % (MAXD - 1, 1), '!%d?!%d?~' % (MAXD - 1, 2)]

def gen_payload(rng, allow_hsl=False):
    toks = []
    r = rng.random()
    if r < 0.45:
        a, b = rng.choice([0, 1, 2]), rng.choice([0, 1, 2])
        k = rng.choice([2, 3, 4, 4, 4])
        nums = [a, b] + [rng.choice([0, 1, 2, 3, 5, 6, 7, 12, 13, 20]) for _ in range(k - 2)]
        toks.append('"' + ';'.join(map(str, nums)))
    n = rng.choice([0, 1, 2, 3, 5, 8, 12, 20])
    n_big = 0            # at most one repeat group near / beyond the limit per payload (the list model walks every repetition)
    for _ in range(n):
        r = rng.random()
        if r < 0.50: toks.append(rng.choice(DATA))
        elif r < 0.59: toks.append('!%d%s' % (rng.choice([0, 1, 2, 3, 7, 30, 100, 500]), rng.choice(DATA + ['-', '$'])))
        elif r < 0.60:
            big = rng.choice([MAXD - 1, MAXD, MAXD + 1, 65536, 2147483647])      # accepted counts only with characters that draw nothing (the list model walks every repetition)
            toks.append('!%d%s' % (big, rng.choice(['?', '-', '$', '~'] if big > MAXD else ['?', '-', '$'])) if n_big < 1 else '-'); n_big += 1
        elif r < 0.70: toks.append('-')
        elif r < 0.76: toks.append('$')
        elif r < 0.84: toks.append('#%d' % rng.choice([0, 1, 2, 5, 15, 16, 17, 40]))
        elif r < 0.91: toks.append('#%d;2;%d;%d;%d' % (rng.choice([0, 1, 3, 15, 16, 20]), rng.choice([0, 50, 100, 33]), rng.choice([0, 100, 7]), rng.choice([0, 100, 99])))
        elif r < 0.93 and allow_hsl: toks.append('#%d;1;%d;%d;%d' % (rng.choice([1, 2, 17]), rng.randrange(360), rng.randrange(101), rng.randrange(101)))
        elif r < 0.95: toks.append('"%d;%d;%d;%d' % (1, 1, rng.choice([0, 1, 4, 9]), rng.choice([0, 1, 6, 7, 13])))
        elif r < 0.96: toks.append(rng.choice([' ', '\n', '%', '0', ';']))
        elif r < 0.97: toks.append(rng.choice(['é', '€']))
        elif r < 0.98: toks.append('#1;%d;1;1;1' % rng.choice([0, 3, 7]))
        elif r < 0.99: toks.append('#1;2;%d;0;0' % rng.choice([255, 99999999, 8421505]))
        else: toks.append('#2;2;1;1')
    return ''.join(toks)

def hexs(s):
    b = s.encode('utf-8')
    return b.hex() or '-'

def codepoints(s):
    return '[%s]' % '; '.join(str(ord(c)) for c in s)

def norm_impl(r):
    if r is None: return None
    if r[0] == 'ok': return r[1]
    if r[0] == 'panic': return [2]
    return [r[0]]

def norm_model(m, is_queue=False):
    if m is None: return None
    if not is_queue and m and m[0] == 2: return [2]
    return m

# ---- schedules ------------------------------------------------------------
def image_sets(rng, k):
    """k images (px, py, payload) with distinct payloads; nested rectangles, an erroring and a panicking decode now and then"""
    imgs = []
    for i in range(k):
        r = rng.random()
        px, py = rng.choice([(0, 0), (0, 0), (1, 0), (0, 1), (2, 1)])
        w, h = rng.choice([(4, 6), (8, 16), (16, 16), (16, 32), (24, 40), (3, 3)])
        if r < 0.12: payload = '"1;1;%d;%d ~%d' % (w, h, i)            # invalid char -> Err
        elif r < 0.22: payload = '#1;2;99999999;0;%d~' % i                # overflow -> decode thread panics
        else: payload = '"1;1;%d;%d#%d~' % (w, h, i)
        imgs.append((px, py, payload))
    return imgs

def schedules_exhaustive(k):
    """all arrivals first, then every completion order x every placement of polls in the k+1 gaps, then k+1 polls to drain"""
    out = []
    for perm in itertools.permutations(range(k)):
        for mask in range(1 << (k + 1)):
            ev = [0] * k
            for j, idn in enumerate(perm):
                if mask >> j & 1: ev.append(1)
                ev.append(2 + idn)
            if mask >> k & 1: ev.append(1)
            ev += [1] * (k + 1)
            out.append(ev)
    return out

def schedule_random(rng, k):
    ev = []; arrived = 0; fin = set()
    while arrived < k or len(fin) < k:
        r = rng.random()
        if arrived < k and r < 0.4: ev.append(0); arrived += 1
        elif r < 0.7 and len(fin) < arrived:
            idn = rng.choice([i for i in range(arrived) if i not in fin]); fin.add(idn); ev.append(2 + idn)
        else: ev.append(1)
    return ev + [1] * (k + 1)

def qcase(imgs, ev):
    return 'sixelq %d %s %s' % (len(imgs), ' '.join('%d %d %s' % (px, py, hexs(p)) for px, py, p in imgs), ' '.join(map(str, ev)))

def qexpr(imgs, ev):
    return 'run_queue 8 16 [%s] [%s]' % ('; '.join('(%d, %d, %s)' % (px, py, codepoints(p)) for px, py, p in imgs), '; '.join(map(str, ev)))

def contains_pt(r, px, py):
    x, y, w, h = r
    return x <= px <= x + w and y <= py <= y + h

def contains_rect(o, i):
    x, y, w, h = i
    return contains_pt(o, x, y) and contains_pt(o, x + w, y + h)

def spec_final(rects):
    """rects: per image in arrival order: (x,y,w,h) or None; python restatement of the property"""
    scr = []
    for r in rects:
        if r is None: continue
        scr = [o for o in scr if not contains_rect(r, o)] + [r]
    return scr

def make_schedules(ctx, quick_k, thorough_k, n_random):
    kmax = thorough_k if (ctx.thorough or ctx.escalated) else quick_k
    sched = []
    for k in range(1, kmax + 1):
        sets = [image_sets(ctx.rng, k) for _ in range(2 if k < kmax else (3 if not ctx.thorough else 2))]
        for imgs in sets:
            for ev in schedules_exhaustive(k):
                sched.append((imgs, ev))
    for _ in range(n_random):
        k = ctx.rng.randint(1, kmax + 1)
        sched.append((image_sets(ctx.rng, k), schedule_random(ctx.rng, k)))
    # directed: four images, the last covers only the first (survivors must keep their arrival order),
    # and a five-image chain where covered images sit in the middle of the list
    d4 = [(0, 0, '"1;1;8;8#1~'), (5, 0, '"1;1;8;16#2~'), (0, 3, '"1;1;16;16#3~'), (0, 0, '"1;1;24;32#4~')]
    d5 = [(5, 0, '"1;1;8;8#1~'), (0, 0, '"1;1;8;8#2~'), (9, 3, '"1;1;8;8#3~'), (0, 0, '"1;1;8;16#4~'), (0, 0, '"1;1;30;40#5~')]
    for imgs in (d4, d5):
        k = len(imgs)
        sched.append((imgs, [0] * k + [2 + i for i in range(k)] + [1] * (k + 1)))
        sched.append((imgs, [0] * k + [2 + i for i in reversed(range(k))] + [1] * (k + 1)))
        ev = []
        for i in range(k): ev += [0, 2 + i, 1]
        sched.append((imgs, ev + [1]))
        for _ in range(3):
            sched.append((imgs, schedule_random(ctx.rng, k)))
    return sched

def correspondence(ctx):
    pay = [gen_payload(ctx.rng) for _ in range(ctx.n(250, 6000))]
    pay += ['~-~~', '"1;1;3;7~~~~-~-~', '', '!', '"1;1', '#1;2;99999999;0;0~', '"1;1;0;0~', '!500~-!3-~'] + LIMIT_PAYLOADS
    shape = [gen_payload(ctx.rng, allow_hsl=True) for _ in range(ctx.n(60, 1500))]
    sched = make_schedules(ctx, 3, 4, ctx.n(40, 600))
    if not (ctx.thorough or ctx.escalated):
        sched = sched[:-12:3] + sched[-12:]
    cases = ['sixel ' + hexs(p) for p in pay] + ['sixelshape ' + hexs(p) for p in shape] + [qcase(i, e) for i, e in sched]
    exprs = ['run_sixel ' + codepoints(p) for p in pay] + ['run_shape ' + codepoints(p) for p in shape] + [qexpr(i, e) for i, e in sched]
    impl = ctx.impl(cases, per_case_timeout=10)
    model = ctx.model('From IE Require Import Run.RunC14.\nLocal Open Scope Z_scope.', exprs)
    dis = []
    classes = {}
    nontriv = set()
    for c, r, m in zip(cases, impl, model):
        a, b = norm_impl(r), norm_model(m, c.startswith('sixelq '))
        key = ('ok-image' if a and a[0] == 0 else 'err' if a and a[0] == 1 else 'panic' if a == [2] else 'queue') if c.startswith('sixel ') or c.startswith('sixelshape') else 'queue'
        classes[key] = classes.get(key, 0) + 1
        if a != b:
            dis.append({'case': c, 'impl': r if r is None or r[0] != 'ok' else r[1][:40], 'model': None if m is None else m[:40]})
        elif key == 'queue' or (a and a[0] == 0 and a[2] > 0): nontriv.add(c)
    return {'cases': len(cases), 'disagreements': dis, 'distinct_nontrivial': len(nontriv),
            'distribution': {'payloads': len(pay), 'shape_payloads': len(shape), 'schedules': len(sched), 'classes': classes,
                             'model_errors': getattr(ctx, 'model_errors', [])[:2]},
            'samples': [cases[0], cases[len(pay) + 1], cases[-1]]}

def declared_height(p):
    """(H) if the payload starts with a raster header of >= 3 numbers and contains no other double quote"""
    if not p.startswith('"') or p.count('"') != 1: return None
    j = 1
    while j < len(p) and (p[j].isdigit() or p[j] == ';'): j += 1
    if j >= len(p): return None      # header never terminated by a data character
    nums = p[1:j].split(';')
    if len(nums) not in (3, 4) or not all(x.isdigit() for x in nums): return None
    return int(nums[-1])

def search(ctx, broken):
    pay = ['~-~~', '~~-~', '"1;1;3;7~~~~-~-~', '"1;1;9;2~-~-~', '-~', '!3~-!5~-~'] + LIMIT_PAYLOADS + \
          ['!%d~' % MAXD, '!%d~~' % MAXD, '!%d~-~' % MAXD, '"1;1;%d;3~' % MAXD, '"1;1;%d;3!%d~' % (MAXD, MAXD), '"1;1;%d;%d~' % (MAXD + 1, MAXD), '"1;1;%d;%d~' % (MAXD, MAXD + 1)]
    # (the full 4096 x 4096 image is 64 MiB: the harness of this check prints every byte; stage S of C03 measures it)
    for b in broken:
        d = b.get('detail') or {}
        c = str(d.get('case', '')) if isinstance(d, dict) else ''
        if c.startswith('sixel ') or c.startswith('sixelshape '):
            h = c.split()[1]
            pay.insert(0, '' if h == '-' else bytes.fromhex(h).decode('utf-8'))
    pay += [gen_payload(ctx.rng, allow_hsl=True) for _ in range(ctx.n(3000, 25000))]
    cases = ['sixel ' + hexs(p) for p in pay]
    sched = make_schedules(ctx, 3, 4, ctx.n(100, 2000))
    impl = ctx.impl(cases + [qcase(i, e) for i, e in sched], per_case_timeout=10)
    failures = []
    nontriv = set()
    for p, c, r in zip(pay, cases, impl[:len(cases)]):
        if r[0] == 'ok' and r[1][0] == 0:
            _, w, h, ln = r[1][:4]
            if h > 0: nontriv.add(p)
            if w > MAXD or h > MAXD:
                failures.append({'signature': 'sixel-dims-beyond-limit', 'input': c, 'impl': r[1][:4], 'detail': 'payload %r: image %d x %d, limit %d (sixel_dims_bounded)' % (p, w, h, MAXD)})
            if ln != 4 * w * h or len(r[1]) - 4 != ln:
                failures.append({'signature': 'sixel-not-rectangle', 'input': c, 'impl': r[1][:4], 'detail': 'payload %r: width %d height %d but %d bytes' % (p, w, h, ln)})
            dh = declared_height(p)
            if dh is not None and h != dh:
                failures.append({'signature': 'sixel-height-not-declared', 'input': c, 'impl': r[1][:4], 'detail': 'payload %r declares height %d, image has %d' % (p, dh, h)})
        elif r[0] in ('timeout', 'oom', 'abort', 'stackoverflow', 'killed'):
            failures.append({'signature': 'sixel-decode-' + r[0], 'input': c, 'impl': list(r), 'detail': 'payload %r' % p})
    # schedules: every poll returns, final screen is the arrival-order spec, identical across schedules of one image set
    decoded = {}
    need = sorted({img for imgs, _ in sched for img in imgs})
    dres = ctx.impl(['sixel ' + hexs(p) for _, _, p in need], per_case_timeout=10)
    for (px, py, p), r in zip(need, dres):
        decoded[(px, py, p)] = (px * 8, py * 16, r[1][1], r[1][2]) if (r[0] == 'ok' and r[1][0] == 0) else None
    for (imgs, ev), r in zip(sched, impl[len(cases):]):
        c = qcase(imgs, ev)
        if r[0] != 'ok':
            failures.append({'signature': 'sixel-queue-' + r[0], 'input': c, 'impl': list(r), 'detail': 'poll blocked / crashed under this schedule'}); continue
        # last poll observation
        v = r[1]; i = 0; last = None
        while i < len(v):
            n = v[i + 2]; last = (v[i], v[i + 1], [tuple(v[i + 3 + 4 * j: i + 7 + 4 * j]) for j in range(n)]); i += 3 + 4 * n
        want = spec_final([decoded[img] for img in imgs])
        if last is None or last[1] != 0 or last[2] != want:
            failures.append({'signature': 'sixel-queue-final-screen', 'input': c, 'impl': last, 'expected': want,
                             'detail': 'after all decodes finished and polls drained, the screen is not the arrival-order result'})
        if len(imgs) > 1: nontriv.add(c)
    failures.sort(key=lambda f: len(str(f['input'])))
    return {'cases': len(cases) + len(sched), 'failures': failures, 'distinct_nontrivial': len(nontriv),
            'samples': [cases[0], qcase(*sched[len(sched) // 2])], 'schedules': len(sched)}

def replay(ctx, body):
    from vlib import driver
    inp = body.get('input')
    print('replay', ID, inp)
    driver.stage_build()
    r = ctx.impl([inp], per_case_timeout=10)[0]
    print('implementation:', r)
    if inp.startswith('sixel '):
        h = inp.split()[1]
        p = '' if h == '-' else bytes.fromhex(h).decode('utf-8')
        m = ctx.model('From IE Require Import Run.RunC14.\nLocal Open Scope Z_scope.', ['run_sixel ' + codepoints(p)])
        print('payload: %r' % p); print('model:', m[0])
        ok = r[0] == 'ok' and (r[1][0] != 0 or r[1][3] == 4 * r[1][1] * r[1][2])
        return 0 if ok else 1
    return 1

LEVEL_TEXT = ('Machine-checked proof (Coq, closed under the global context). (a) Model of SixelParser (every state, raster header, repeat, '
              'colour definition incl. overflow panics, ragged row growth) and theorem sixel_rect: every successfully decoded image holds exactly '
              '4*width*height bytes, for every payload of any length; a declared raster height is kept whatever data follows; after the size-limit fix width and height are at most '
              'MAX_SIXEL_DIMENSION = 4096 (sixel_dims_bounded; the constant is read from the source). (b) Transition-system model of '
              'the decode queue (execute_dcs push_back, update_sixel_threads) and theorems over EVERY sequence of arrivals, completions in any order and polls: '
              'poll never joins an unfinished decode, popped++queued = arrivals (no loss, no duplicate, arrival order), screen = arrival-order spec, '
              'final screen independent of the schedule, shadow removal exact. Partial only in that real OS-thread timing is exhibited just for the gated schedules '
              '(all k! x 2^(k+1) for k<=3 quick / k<=4 thorough) run against the real code through the hook.')
LEVEL_NOTE = ('Trusted: Coq kernel + vm_compute; hand-written models tied to src/sixel_mod.rs, buffers.rs::update_sixel_threads, dcs.rs by differential runs '
              '(pixel-exact for RGB payloads, shape-exact for HSL); FIFO VecDeque and is_finished=>join-returns are assumed runtime facts; the hook gate.')
TECHNIQUE = 'Coq proof: row-length invariant by induction over the payload; queue invariant (popped++queue = arrivals, screen = spec) by induction over event sequences; differential tie through a cfg-gated thread hook'
