"""C02, stage C for the text loaders: `Buffer::from_bytes` on token streams against Model/FileLoad.v (Run/RunC02Text.v).

Every case is a whole file (content + optional SAUCE tail) under one of the text extensions.  Observation (harness kind
`c2text`): buffer / terminal / layer-0 sizes, number of rows, number of layers, a position-weighted digest of the cells of
layer 0 (character code; background is colour 0 or not - the cell projection of Model/TermCore.v), the length of every row,
the size of every Image layer.  The sixel oracle of the model (font-0 size, position and pixel size of each decoded sixel) is
read from the same observation for files that load, and given by construction for the directed files that crash."""
import base64, struct
from props import termgen as tg
from props import c02gen as g

E = b'\x1b'
MODEL_IMPORTS = 'From IE Require Import Run.RunC02Text.\nLocal Open Scope Z_scope.'
EMU = {'ans': 0, 'ice': 0, 'diz': 0, 'zzz': 0, 'avt': 1, 'pcb': 2, 'msg': 3, 'an1': 4, 'an7': 4, 'asc': 5, 'seq': 6, 'ata': 7}
CODE = {'ans': 0, 'ice': 0, 'diz': 0, 'zzz': 0, 'pcb': 6, 'avt': 7, 'asc': 8, 'msg': 10, 'an1': 11, 'an7': 11, 'seq': 12, 'ata': 13}
SIXEL = E + b'Pq#0;2;0;0;0#0~~~~' + E + b'\\'          # 4 x 6 pixels
SIXEL2 = E + b'Pq"1;1;20;12#0;2;0;0;0#0~~-~~' + E + b'\\'

def zl(b):
    return '[' + '; '.join(str(x) for x in b) + ']'

def nl(b):
    return zl(b) + '%N'

def psf2(width, height, charsize=0):
    """a PSF2 file without glyphs (length 0); charsize 0 as in the recorded witnesses of C02-sixel-font0, or = height (what fix fB wants)"""
    return struct.pack('<8I', 0x864ab572, 0, 32, 0, 0, charsize & 0xffffffff, height & 0xffffffff, width & 0xffffffff)

def font0(width, height, charsize=0):
    return E + b'PCTerm:Font:0:' + base64.b64encode(psf2(width, height, charsize)) + E + b'\\'

def font0_raw(data):
    return E + b'PCTerm:Font:0:' + base64.b64encode(data) + E + b'\\'

def hexmacro(pid, body):
    return E + b'P%d;0;1!z' % pid + body.hex().upper().encode() + E + b'\\'

def text_sauce(rng):
    """a SAUCE tail whose size fields the text loaders act on (width 0 / > 1000 -> 80, height as given - 0 included)"""
    w = rng.choice([0, 1, 2, 40, 80, 81, 132, 160, 1000, 1001, 65535])
    h = rng.choice([0, 0, 1, 2, 24, 25, 50, 100])
    nc = rng.choice([0, 0, 1])
    rec = g.sauce_record(rng, 0, comments=nc, w=w, h=h, dtype=rng.choice([1, 1, 1, 0, 5]), ftype=rng.choice([0, 1, 2]))
    blk = b'COMNT' + b'comment'.ljust(64) if nc else b''
    return (b'\x1a' if rng.random() < 0.8 else b'') + blk + rec

def extra_ansi_tokens():
    from props import c01
    t = list(tg.RESIZE)
    t += [x for x in c01.extra_tokens(0) if x[0] in ('DCS-macro', 'DCS-macro-hex', 'DCS-macro-bad', 'DCS-macro-clr', 'DCS-macro-csi', 'DCS-macro-nest',
                                                     'INV1', 'INV2', 'INV5', 'INV6', 'INV9', 'DCS-inv-inside', 'DCS-inv-nonum', 'DCS-esc', 'DCS-unknown',
                                                     'OSC8-open', 'OSC8-close', 'OSC4', 'APS', 'ST', 'FONT-psf1', 'FONT-psf2', 'FONT-psf2-ok', 'FONT-psf2-w0', 'FONT-psf2-big', 'FONT-slot0', 'FONT-short',
                                                     'FONTSEL', 'FONTSEL-bad', 'DECFRA-ok', 'DECFRA-surrogate', 'T24', 'DEVATTR', 'REQ1', 'SSM-short')]
    return t

def stream(rng, ext):
    """(content bytes, label)"""
    emu = EMU[ext]
    w, h = (40, 25) if ext in ('seq', 'ata') else (80, 25)
    r = rng.random()
    if emu == 6:
        if r < 0.6: return tg.petscii_stream(rng, w, h, rng.choice([5, 20, 60, 150])), 'petscii'
        toks = tg.plain_tokens(6, w, h)
        return b''.join(rng.choice(toks)[1] for _ in range(rng.choice([3, 10, 40]))), 'petscii-tokens'
    toks = [t for t in tg.alphabet(emu, w, h) if b'9999' not in t[1]]
    if emu in tg.ANSI_BASED:
        if r < 0.12:
            from props import c01
            b, _ = c01.macro_stream(rng, emu, w, h)
            return b[:400], 'macro-replay'
        if r < 0.24:
            from props import c01
            b, _ = c01.post_resize_stream(rng, emu, w, h)
            return b[:300], 'post-resize'
        if r < 0.34:
            # scrolling on a file buffer: rows beyond the buffer height, a cleared layer, then SU / SD / RI / IND with counts around max_effective_scrolls
            pre = rng.choice([b'', b'\n' * rng.choice([3, 30, 40]) + b'AB', b'\n' * 40 + b'A' + rng.choice([b'\x0c', E + b'[2J', b''])])
            body = b''.join(rng.choice([E + b'[%d%s' % (rng.choice([1, 2, 5, 24, 25, 26, 30, 60, 99]), rng.choice([b'S', b'T'])), E + b'M', E + b'D', E + b'E', b'X', b'\n',
                                        E + b'[%dA' % rng.choice([1, 9]), E + b'[%d;%dr' % (rng.choice([1, 2]), rng.choice([3, 25]))]) for _ in range(rng.choice([2, 4, 8])))
            return pre + body, 'file-scroll'
        toks = toks + extra_ansi_tokens()
        if r < 0.5:
            toks = toks + [('SIXEL', SIXEL)] * 8 + [('SIXEL2', SIXEL2)] * 4
    b, _ = tg.random_stream(rng, emu, w, h, rng.choice([2, 3, 5, 8, 20, 45]), toks=toks, light=True)
    if b.count(E + b'Pq') > 3:      # each sixel costs a decode thread and a 50 ms wait in parse_with_parser
        k = [i for i in range(len(b)) if b.startswith(E + b'Pq', i)][3]
        b = b[:k]
    return b, 'tokens' + ('+sixel' if E + b'Pq' in b else '')

# (label, ext, content, oracle (fw, fh, [(x, y, pw, ph)]) or None = from the observation)
def directed():
    bomb = E + b'P1;0;1!z1B5B312A7A' + E + b'\\' + E + b'[1*z'
    d = [
        ('ans-cursor-up-insert-line', 'ans', E + b'[A' + E + b'[L', None),
        ('ans-cursor-up-delete-line', 'ans', E + b'[A' + E + b'[M', None),
        ('ata-cursor-up-insert-line', 'ata', b'\x1c\x9d', None),
        ('ata-cursor-up-delete-line', 'ata', b'\x1c\x9c', None),
        ('ans-empty', 'ans', b'', None), ('seq-empty', 'seq', b'', None), ('ata-empty', 'ata', b'', None),
        ('ans-two-rows', 'ans', b'A\nB', None),
        ('ans-trailing-newlines', 'ans', b'AB\r\n\r\n\r\n', None),
        ('ans-only-newlines', 'ans', b'\n\n\n', None),
        ('ans-su-clamped', 'ans', b'\n' * 99 + b'A\x0c' + b'B' + E + b'[60S', None),
        ('ans-sd-clamped', 'ans', b'\n' * 99 + b'A\x0c' + b'B' + E + b'[60T', None),
        ('ans-su-after-grow', 'ans', b'\n' * 40 + b'A' + E + b'[70S', None),
        ('ans-ri-row0', 'ans', b'AB' + E + b'M' + E + b'M', None),
        ('ans-insert-mode-wrap', 'ans', E + b'[4h' + b'A' * 81 + E + b'[A' + b'B', None),
        ('ans-resize-then-print', 'ans', E + b'[8;1;1t' + b'ABC' + E + b'[5C' + b'D', None),
        ('ans-margins-ignored', 'ans', E + b'[2;3r' + b'\n' * 6 + b'A' + E + b'[5A' + E + b'M', None),
        ('ans-lr-margins-scroll', 'ans', b'ABCDEF' + E + b'[?69h' + E + b'[2;4s' + E + b'[ @' + E + b'[ A', None),
        ('ans-ed-on-file', 'ans', b'A\nB\nC' + E + b'[2;1H' + E + b'[J' + E + b'[1J', None),
        ('ans-sixel', 'ans', b'AB' + SIXEL, None),
        ('ans-two-sixels', 'ans', b'AB' + SIXEL + b'\r\n\r\n' + SIXEL2, None),
        ('ans-sixel-shadowed', 'ans', SIXEL + E + b'[H' + SIXEL2, None),
        ('ans-font0-8x8-sixel', 'ans', font0(8, 8, 8) + b'\n\nABC' + SIXEL2, None),          # font 0 IS replaced (charsize = height): cells of 8 x 8
        ('ans-font0-1x1-sixel', 'ans', font0(1, 1, 1) + b'ABC' + SIXEL2, None),
        ('ans-font0-8x32-sixel', 'ans', font0(8, 32, 32) + b'\n\nABC' + SIXEL2, None),
        ('ans-font0-8x8-charsize0-sixel', 'ans', font0(8, 8) + b'\n\nABC' + SIXEL2, None),  # refused since fix fB (charsize 0 != height): font 0 stays 8 x 16
        ('ans-font0-psf1-h8-sixel', 'ans', font0_raw(b'\x36\x04\x00\x08' + bytes(16)) + b'AB' + SIXEL, None),
        ('ans-font0-raw-h32-sixel', 'ans', font0_raw(bytes([1]) * (32 * 256)) + b'AB' + SIXEL, None),
        ('avt-sixel', 'avt', b'AB' + SIXEL, None),
        # the former Known 3 (C02-sixel-font0, fixed by fix fB): a sixel next to a `CTerm:Font:0:` string with a degenerate font.  The loaders
        # refuse the font, font 0 stays the default one and the file LOADS (before the fix: division by zero / overflow / capacity overflow;
        # the oracle was "what the file says").  Now the oracle is read from the observation like for every other file: both sides must load.
        ('ans-font0-w0-sixel', 'ans', font0(0, 16) + SIXEL, None),
        ('ans-font0-h0-sixel', 'ans', font0(8, 0) + SIXEL, None),
        ('pcb-font0-00-sixel', 'pcb', font0(0, 0) + b'AB' + SIXEL, None),
        ('ans-font0-2^30-sixel', 'ans', font0(2 ** 30, 16) + b'AB' + SIXEL, None),
        ('msg-font0-h2^30-sixel', 'msg', font0(8, 2 ** 30) + b'A\r\n\r\nB' + SIXEL, None),
        ('ans-font0-minus1-sixel', 'ans', font0(2 ** 32 - 1, 2 ** 32 - 1) + SIXEL, None),
        ('avt-font0-w0-sixel', 'avt', font0(0, 16) + SIXEL, None),
        ('avt-font0-2^30-sixel', 'avt', font0(2 ** 30, 16) + b'AB' + SIXEL, None),
        ('avt-font0-minus1-sixel', 'avt', font0(2 ** 32 - 1, 2 ** 32 - 1) + SIXEL, None),
        ('pcb-font0-h0-sixel', 'pcb', font0(8, 0) + SIXEL, None),
        ('pcb-font0-h2^30-sixel', 'pcb', font0(8, 2 ** 30) + b'A\r\n\r\nB' + SIXEL, None),
        ('pcb-font0-minus1-sixel', 'pcb', font0(2 ** 32 - 1, 2 ** 32 - 1) + SIXEL, None),
        # the same sizes with charsize = height (only the size check can refuse them), width 9, height 33, a PSF1 font with charsize 0 / 33,
        # raw data of 33 rows
        ('ans-font0-w0-cs-sixel', 'ans', font0(0, 16, 16) + SIXEL, None),
        ('ans-font0-w9-sixel', 'ans', font0(9, 16, 16) + b'AB' + SIXEL, None),
        ('ans-font0-h33-sixel', 'ans', font0(8, 33, 33) + b'A\r\nB' + SIXEL, None),
        ('ans-font0-2^31-cs-sixel', 'ans', font0(2 ** 31, 2 ** 31, 2 ** 31) + b'AB' + SIXEL, None),
        ('ans-font0-psf1-h0-sixel', 'ans', font0_raw(b'\x36\x04\x00\x00') + SIXEL, None),
        ('avt-font0-psf1-h0-sixel', 'avt', font0_raw(b'\x36\x04\x00\x00' + bytes(7)) + b'AB' + SIXEL, None),
        ('ans-font0-psf1-h33-sixel', 'ans', font0_raw(b'\x36\x04\x00\x21' + bytes(66)) + b'A\r\nB' + SIXEL, None),
        ('ans-font0-raw-h33-sixel', 'ans', font0_raw(bytes(33 * 256)) + b'A\r\nB' + SIXEL, None),
        ('ans-font0-w0-no-sixel', 'ans', font0(0, 0) + b'AB', None),
        ('ans-font0-2^30-sixel-origin', 'ans', font0(2 ** 30, 2 ** 30) + SIXEL, None),
        # the former Known 2 (repaired by the nesting limit MAX_MACRO_NESTING, fix 2513579): the macro bomb through every loader with an ANSI parser inside
        # (the file loads: the invocation is an error value that parse_with_parser logs); harmless for the others; chains around the limit; recursion with fan-out
        ('ans-macro-self', 'ans', bomb, None), ('avt-macro-self', 'avt', bomb, None), ('pcb-macro-self', 'pcb', bomb, None),
        ('msg-macro-self', 'msg', bomb, None), ('an1-macro-self', 'an1', bomb, None), ('zzz-macro-self', 'zzz', bomb, None),
        ('asc-macro-self', 'asc', bomb, None), ('seq-macro-self', 'seq', bomb, None), ('ata-macro-self', 'ata', bomb, None),
        ('ans-macro-chain', 'ans', b''.join(hexmacro(i, (b'<%d>' % i) + (E + b'[%d*z' % (i - 1) if i > 1 else b'\n')) for i in range(1, 7)) + E + b'[6*z', None),
    ]
    for n in (15, 16, 17, 18):
        chain = b''.join(hexmacro(i, b'A\n' if i == 1 else (b'%d' % (i % 10)) + E + b'[%d*z' % (i - 1) + b'.') for i in range(1, n + 1)) + E + b'[%d*z' % n + b'!'
        d += [('%s-macro-chain-%d' % (ext, n), ext, chain, None) for ext in ('ans', 'avt', 'msg')]
    d += [('%s-macro-self-fanout' % ext, ext, hexmacro(1, (b'a' + E + b'[1*z') * 4) + E + b'[1*z' + b'B', None) for ext in ('ans', 'pcb', 'an1')]
    d += [('ans-macro-mutual', 'ans', hexmacro(1, b'x' + E + b'[2*z' + b'X') + hexmacro(2, b'y\n' + E + b'[1*z' + b'Y') + E + b'[2*z' + E + b'[1*z', None),
          ('ans-macro-self-in-dcs', 'ans', hexmacro(1, E + b'Px' + E + b'[1*z' + b'r' + E + b'\\') + E + b'[1*z' + b'C' + E + b'\\' + b'D', None)]      # (not `Pq`: a sixel string that fails to decode ends the load with Err)
    return d

def sauce_directed():
    """(label, ext, content, width, height, ice)"""
    return [('sauce-h0', 'ans', b'A\nB', 80, 0, 0), ('sauce-h0-empty', 'ans', b'', 80, 0, 0), ('sauce-h0-scroll', 'ans', b'AB' + E + b'M' + E + b'[3S' + E + b'[2T' + E + b'D', 80, 0, 0),
            ('sauce-w0', 'ans', b'A' * 81, 0, 25, 0), ('sauce-w0-eol-insert', 'ans', E + b'[4~' + E + b'[4h' + b'AB', 0, 25, 0), ('sauce-w0-scroll-right', 'ans', b'AB' + E + b'[ A' + E + b'[ @', 0, 25, 0), ('sauce-w1', 'ans', b'ABC' + E + b'[ A' + E + b'[4~', 1, 2, 0), ('sauce-w1001', 'avt', b'A' * 90, 1001, 3, 0),
            ('sauce-w1000', 'pcb', b'A' * 90 + E + b'[999C' + b'B', 1000, 3, 0), ('sauce-ice', 'pcb', b'@X9Fab\x1b[5mQ', 80, 25, 1), ('sauce-ice-avt', 'avt', b'\x16\x01\x9fab', 80, 25, 1),
            ('sauce-h100-ed', 'ans', b'A' + E + b'[J' + E + b'[99B' + b'B', 40, 100, 0), ('sauce-seq-h0', 'seq', b'AB\rC\x93D', 40, 0, 0), ('sauce-seq-w2', 'seq', b'ABCDE\x11\x9d\x9dF', 2, 3, 0),
            ('sauce-ata-w80', 'ata', b'A' * 45 + b'\x9b\x1c\x1c\x1c\x9d', 80, 3, 0), ('sauce-asc-h1', 'asc', b'A\nB\nC\n', 10, 1, 0)]

def mk_sauce(w, h, ice):
    rec = b'SAUCE00' + b'title'.ljust(35) + b'author'.ljust(20) + b'group'.ljust(20) + b'20240131' + struct.pack('<I', 0) + bytes([1, 1])
    rec += struct.pack('<HHHH', w, h, 0, 0) + bytes([0, 1 if ice else 0]) + b''.ljust(22, b'\0')
    assert len(rec) == 128
    return b'\x1a' + rec

def cases(ctx):
    """[(label, ext, file bytes, oracle or None, chars or None)]"""
    rng = ctx.rng
    out = []
    for lbl, ext, c, orc in directed():
        out.append((lbl, ext, c, orc, None))
    for lbl, ext, c, w, h, ice in sauce_directed():
        out.append((lbl, ext, c + mk_sauce(w, h, ice), None, None))
    exts = ['ans', 'ans', 'ice', 'diz', 'zzz', 'avt', 'avt', 'pcb', 'pcb', 'msg', 'msg', 'an1', 'an7', 'asc', 'seq', 'seq', 'ata', 'ata']
    for _ in range(ctx.n(150, 1800)):
        ext = rng.choice(exts)
        c, lbl = stream(rng, ext)
        if rng.random() < 0.3:
            c = c + text_sauce(rng); lbl += '+sauce'
        use = ext if rng.random() < 0.9 else ext.upper()
        out.append((lbl, use, c, None, None))
    # convert_ansi_to_utf8: a BOM in front of valid UTF-8 switches to decoding; in front of invalid UTF-8 it does not.
    # Characters of the BMP only: ASCII / Avatar truncate a character with `as u16`, which C01's models (made for bytes) do not follow
    for _ in range(ctx.n(10, 80)):
        ext = rng.choice(['ans', 'avt', 'asc', 'pcb'])
        text = ''.join(rng.choice(['A', 'b', ' ', '\n', '\r', 'é', '█', '░', '\uffee', '\x1b[5C', '\x1b[2A', '\x1b[1;31m', '\x1b[K']) for _ in range(rng.choice([1, 5, 20])))
        data = b'\xef\xbb\xbf' + text.encode('utf-8')
        if rng.random() < 0.3:
            data = data[:3] + bytes([rng.choice([0xff, 0xc0, 0x80])]) + data[3:]
        try:
            chars = [ord(ch) for ch in data.decode('utf-8')]
        except UnicodeDecodeError:
            chars = None
        out.append(('bom' if chars is not None else 'bom-invalid', ext, data, None, chars))
    return out

def model_expr(ext, data, fw, fh, sixels, serr, chars):
    sx = '[' + '; '.join('(%d, %d, %d, %d)' % tuple(s) for s in sixels) + ']'
    se = 'true' if serr else 'false'
    if chars is not None:
        return 'run_text_chars %d [] (%d) (%d) %s %s %s' % (CODE[ext.lower()], fw, fh, sx, se, zl(chars))
    return 'run_text_file %s %s (%d) (%d) %s %s' % (nl(ext.encode()), nl(data), fw, fh, sx, se)

def oracle_from_obs(v):
    """(fw, fh, sixels in join order) from a c2text observation"""
    k = v.index(-10)
    fw, fh = v[k + 1], v[k + 2]
    rest = v[k + 3:]
    layers = [tuple(rest[i:i + 4]) for i in range(0, len(rest), 4)]
    return fw, fh, list(reversed(layers))          # layers are pushed by `sixels.pop()`: last joined first

def correspondence(ctx):
    cs = cases(ctx)
    impl = ctx.impl(['c2text %s %s' % (ext, g.hexs(d)) for _, ext, d, _, _ in cs], per_case_timeout=20)
    exprs = []; keep = []
    dist = {}
    for (lbl, ext, d, orc, chars), r in zip(cs, impl):
        if r[0] in ('timeout', 'oom', 'killed'):
            dist['skipped-resource'] = dist.get('skipped-resource', 0) + 1
            continue
        if r[0] == 'panic' and 'library/std/src/thread' in str(r[1]):
            dist['skipped-thread-limit'] = dist.get('skipped-thread-limit', 0) + 1
            continue
        if orc is not None: fw, fh, sx = orc
        elif r[0] == 'ok' and r[1] and r[1][0] == 1: fw, fh, sx = oracle_from_obs(r[1])
        else: fw, fh, sx = 8, 16, []
        # `update_sixel_threads()?`: a sixel string that does not decode ends the load with Err (the decode is C14's subject)
        serr = r[0] == 'ok' and r[1] == [0] and E + b'P' in d and b'q' in d
        exprs.append(model_expr(ext, d, fw, fh, sx, serr, chars)); keep.append(((lbl, ext, d), r))
        key = lbl.split('-')[0] if lbl.count('-') > 1 else lbl
        dist[key] = dist.get(key, 0) + 1
    model = ctx.model(MODEL_IMPORTS, exprs)
    dis = []
    for ((lbl, ext, d), r), e, m in zip(keep, exprs, model):
        if r[0] == 'ok':
            v = r[1]
            got = v[:v.index(-10)] if -10 in v else v
        elif r[0] == 'panic': got = [-1]
        elif r[0] == 'stackoverflow': got = [-2]
        else: got = [r[0]]
        want = m
        if m is not None and m[:1] == [-1]: want = [-1]
        if want is None or got != want:
            dis.append({'case': 'c2text %s %s' % (ext, g.hexs(d)), 'kind': ('text', ext, lbl),
                        'impl': got if len(str(got)) < 400 else str(got)[:400], 'model': want if want is None or len(str(want)) < 400 else str(want)[:400],
                        'impl_raw': str(r)[:200]})
    return {'cases': len(keep), 'disagreements': dis, 'distribution': dist, 'distinct': len(set((e, d) for (_, e, d), _ in keep)),
            'samples': [exprs[0][:200]] if exprs else []}
