"""C19 — table-driven CRCs equal their bitwise definitions (DESIGN.md section 7, C19)."""
ID = 'C19'
GENERATORS = ['gen_crc']
COQ_TARGETS = ['Props/C19.vo', 'Run/RunC19.vo']
PROPS_MODULE = 'Props.C19'
THEOREMS = ['get_crc16_spec', 'get_crc32_spec', 'crc32_incremental_eq', 'crc16_incremental_eq',
            'update_crc16_step', 'update_crc32_step', 'crc32_loop_fuel_suffices']
SWEEP_LEMMAS = ['Crc32Proofs.table_ok_true (16x256 entries of the generated CRC32_TABLE against bit32^(8(k+1)))',
                'Crc16Proofs.table16_ok_true (256 entries of the generated CRC16_CCITT_TABLE)']
TRUSTED = ['Coq 8.16.1 kernel + vm_compute (table sweeps, model evaluation); no axioms (Print Assumptions: closed)',
           'translator/gen_crc.py + vlib/rustsrc.py: Rust tokenizer, template matcher, integer-expression translator (u8/u16/u32 width semantics)',
           'AAC_tactics (proof search only; the resulting proof term is kernel-checked)',
           'harness/src/c19.rs and the python bitwise reference CRC used by the search stage']
UNMODELLED = ['get_crc16_buggy / get_crc16_buggy_zlde (not part of the property)',
              'callers of the CRC routines (DECRQCRA, font/palette checksums)']
ASSUMPTIONS = ['Rust u8/u16/u32 operators behave as the width semantics written into the translator (shl truncates, `as` truncates, `!` is xor with all-ones)']
RULE = ('byte strings of length 0..80 biased to the 16-byte slice boundaries (15,16,17,31,32,33,47,48,49) with seeded random bytes, '
        'single update steps from random states, plus a directed walk through every (table,index) pair of the sliced CRC-32 '
        'and every CRC-16 table entry; a case is non-trivial when the string is non-empty; distinct = distinct strings')

def crc16_ref(bs):
    c = 0
    for b in bs:
        c ^= b << 8
        for _ in range(8):
            c = ((c << 1) ^ 0x1021) & 0xFFFF if c & 0x8000 else (c << 1) & 0xFFFF
    return c

def crc32_ref(bs):
    c = 0xFFFFFFFF
    for b in bs:
        c ^= b
        for _ in range(8):
            c = (c >> 1) ^ 0xEDB88320 if c & 1 else c >> 1
    return c ^ 0xFFFFFFFF

def hexs(bs):
    return ''.join('%02x' % b for b in bs) or '-'

def gen_strings(ctx, n):
    out = []
    special = [15, 16, 17, 31, 32, 33, 47, 48, 49, 64, 80]
    for i in range(n):
        r = ctx.rng.random()
        if r < 0.5: ln = ctx.rng.choice(special)
        else: ln = ctx.rng.randint(0, 80)
        mode = ctx.rng.random()
        if mode < 0.7: bs = [ctx.rng.randrange(256) for _ in range(ln)]
        elif mode < 0.85: bs = [ctx.rng.choice([0, 255, 1, 128]) for _ in range(ln)]
        else: bs = [(i + j) % 256 for j in range(ln)]
        out.append(bs)
    return out

def table_walk():
    """one 16-byte string per (k, i): byte position 15-k carries index i into table k (all other lookups hit index 0
    of their table except the four state bytes); plus longer variants so the second slice is exercised too"""
    out = []
    for k in range(16):
        for i in range(256):
            s = [0] * 16
            pos = 15 - k
            s[pos] = i
            out.append(s)
    for i in range(256):
        out.append([i])
        out.append([0x5a, i])
    return out

def correspondence(ctx):
    strings = gen_strings(ctx, ctx.n(300, 20000))
    walk = table_walk() if (ctx.thorough or ctx.escalated) else table_walk()[::16]
    strings = strings + walk
    upd = [(ctx.rng.randrange(1 << 32), ctx.rng.randrange(256)) for _ in range(ctx.n(200, 4000))]
    cases = ['crc ' + hexs(s) for s in strings] + ['upd %d %d' % u for u in upd]
    impl = ctx.impl(cases)
    exprs = ['run_crc [%s]%%N' % '; '.join(map(str, s)) for s in strings] + ['run_upd %d %d' % u for u in upd]
    model = ctx.model('From IE Require Import Run.RunC19.\nLocal Open Scope N_scope.', exprs)
    dis = []
    for i, (c, r, m) in enumerate(zip(cases, impl, model)):
        if r is None or r[0] != 'ok' or m is None or r[1] != m:
            dis.append({'case': c, 'impl': r, 'model': m})
    lens = {}
    for s in strings: lens[len(s)] = lens.get(len(s), 0) + 1
    return {'cases': len(cases), 'disagreements': dis,
            'distinct_nontrivial': len({tuple(s) for s in strings if s}) + len(set(upd)),
            'distribution': {'string_lengths': {str(k): v for k, v in sorted(lens.items())}, 'update_steps': len(upd),
                             'model_errors': getattr(ctx, 'model_errors', [])[:2]},
            'samples': [cases[0], cases[len(strings) // 2], cases[-1]]}

def search(ctx, broken):
    strings = gen_strings(ctx, ctx.n(2000, 20000)) + table_walk()
    if ctx.thorough or ctx.escalated:
        strings += [[a, b] for a in range(256) for b in range(256)]
    # inputs on which model and implementation disagreed come first
    for b in broken:
        d = b.get('detail') or {}
        if isinstance(d, dict) and str(d.get('case', '')).startswith('crc '):
            h = d['case'].split()[1]
            strings.insert(0, [] if h == '-' else [int(h[i:i+2], 16) for i in range(0, len(h), 2)])
    cases = ['crc ' + hexs(s) for s in strings]
    if ctx.thorough or ctx.escalated:
        cases.append('sweep16')
    impl = ctx.impl(cases, per_case_timeout=120)
    failures = []
    for s, c, r in zip(strings + [None], cases, impl):
        if c == 'sweep16':
            if r[0] != 'ok' or r[1][0] != 0:
                first = r[1][1] if r[0] == 'ok' else None
                failures.append({'signature': 'update_crc16-step-mismatch', 'input': {'state': first >> 8, 'byte': first & 255} if first is not None else c,
                                 'impl': r, 'detail': 'exhaustive 2^16 x 256 sweep of update_crc16 against the bitwise step'})
            continue
        want = [crc16_ref(s), crc32_ref(s), crc16_ref(s), crc32_ref(s)]
        if r[0] != 'ok':
            failures.append({'signature': 'crc-%s' % r[0], 'input': c, 'impl': r, 'expected': want}); continue
        names = ['get_crc16', 'get_crc32', 'update_crc16-bytewise', 'update_crc32-bytewise']
        for k in range(4):
            if r[1][k] != want[k]:
                failures.append({'signature': '%s-mismatch' % names[k], 'input': c, 'impl': r[1], 'expected': want,
                                 'detail': '%s returned %d, bitwise definition gives %d' % (names[k], r[1][k], want[k])})
                break
    failures.sort(key=lambda f: len(str(f['input'])))
    return {'cases': len(cases), 'failures': failures, 'distinct_nontrivial': len({tuple(s) for s in strings if s}),
            'samples': [cases[1], cases[-2]], 'exhaustive_two_byte_strings': bool(ctx.thorough or ctx.escalated)}

def replay(ctx, body):
    from vlib import driver
    inp = body.get('input')
    print('replay', ID, inp)
    if isinstance(inp, str) and inp.startswith('crc '):
        ok, out = driver.stage_build()
        r = ctx.impl([inp])[0]
        h = inp.split()[1]
        s = [] if h == '-' else [int(h[i:i+2], 16) for i in range(0, len(h), 2)]
        want = [crc16_ref(s), crc32_ref(s), crc16_ref(s), crc32_ref(s)]
        m = ctx.model('From IE Require Import Run.RunC19.\nLocal Open Scope N_scope.', ['run_crc [%s]%%N' % '; '.join(map(str, s))])
        print('implementation:', r); print('model:', m[0]); print('bitwise definition:', want)
        return 0 if (r[0] == 'ok' and r[1] == want) else 1
    print(json_dump(body))
    return 1

def json_dump(b):
    import json
    return json.dumps(b, indent=1)

LEVEL_TEXT = ('Machine-checked proof (Coq, closed under the global context) that get_crc16/get_crc32 and the byte-wise '
              'update functions equal MSB-first division by 0x1021 / LSB-first division by 0xEDB88320 with init and final '
              'inversion, for every byte string of every length. The tables (256 + 16x256 entries) and the leaf expressions '
              '(update_crc16, update_crc32, the 16-lookup slice expression, update_slow step) are re-extracted from '
              'src/crc.rs on every run and the loop skeletons are template-matched against the source, so the theorems '
              'are about what the code says now; full level, nothing of the property left outside.')
LEVEL_NOTE = ('Trusted: Coq kernel + vm_compute; the python translator (tokenizer, template matcher, expression translator '
              'with u8/u16/u32 width semantics); differential run of model vs implementation as a cross-check; no axioms.')
TECHNIQUE = 'Coq proof (GF(2)-linearity of the bitwise step + complete vm_compute sweep of the regenerated tables); translator tie'
