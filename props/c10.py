"""C10 — stored text is always valid Unicode (DESIGN.md section 7, C10).

Stage C drives every conversion site through the public API (CSI fill on a terminal buffer, Layer::from_clipboard_data,
hand-built IcyDraw files, BitFont loaders, DCS hex macros, and std's from_utf8/from_utf8_lossy themselves) and compares
with the Coq model of the site.  Stage S is the property stated on the real code: no worker abort, `ch as u32` of
every stored cell is a scalar value, std::str::from_utf8 accepts every String that was built."""
import json, struct, zlib, base64

ID = 'C10'
GENERATORS = ['gen_textsites', 'gen_sixel']
COQ_TARGETS = ['Props/C10.vo', 'Run/RunC10.vo']
PROPS_MODULE = 'Props.C10'
THEOREMS = ['utf8_valid_spec', 'utf8_lossy_is_utf8', 'utf8_lossy_id', 'utf8_lossy_fuel_suffices',
            'char_from_u32_spec', 'csi_numbers_range',
            'stored_scalar_fill', 'fill_stores_iff', 'stored_scalar_clipboard', 'stored_scalar_icy_first',
            'stored_scalar_icy_cont', 'strings_utf8_icy', 'strings_utf8_icy_identity', 'stored_scalar_glyphs', 'glyphs_keys_below_max', 'stored_scalar_glyphs_checked',
            'glyphs_keys_are_indices', 'glyphs_complete', 'font_from_bytes_total', 'stored_scalar_loaded_font',
            'stored_scalar_created_font', 'stored_scalar_font_lookups', 'stored_scalar_hexmacro', 'strings_utf8_hexmacro',
            'clipboard_total', 'icy_cells_total', 'glyphs_total',
            'fix_is_local_clipboard', 'fix_is_local_icy', 'fix_is_local_glyphs',
            'fill_before_fix_refuted', 'clipboard_before_fix_refuted', 'icy_before_fix_refuted',
            'glyphs_before_fix_refuted', 'strings_before_fix_refuted']
SWEEP_LEMMAS = ['TextSitesProofs.hex_table_positions (every position in the regenerated HEX_TABLE is below 16)',
                'TextSitesProofs.max_glyphs_le / max_glyphs_eq (the regenerated fonts::MAX_GLYPHS is 0xD800: every index below it is a char, '
                'and the snapshot loop differs from the merged one only from the first surrogate on)']
TRUSTED = ['Coq 8.16.1 kernel + vm_compute (model evaluation, witnesses); no axioms (Print Assumptions: closed)',
           'translator/gen_textsites.py + vlib/rustsrc.py: tokenizer, function finder, call-argument extraction; it decides from the '
           'source which conversion (checked / unchecked) each site calls, pins the converted expression, and takes a census of every '
           '`unsafe` / `*_unchecked` / transmute token of src/',
           'Model/Unicode.v as a description of the Rust standard library (char::from_u32, str::from_utf8, String::from_utf8_lossy, '
           'char::encode_utf8), tied to std by a differential run on every run (kinds c10utf8, c10char)',
           'the hand-written loops of Model/TextSites.v (CSI numbers, fill rectangle, clipboard records, IcyDraw header and cell '
           'decoders, glyph loop, hex-macro state machine), tied to the code by stage C on generated inputs',
           'safe Rust: a `char` obtained from a safe API is a scalar value and String::push/push_str keep a String UTF-8 '
           '(the property is about the places where the engine leaves safe Rust)',
           'harness/src/c10.rs and the PNG/zTXt/base64 container writer of this plug-in']
UNMODELLED = ['the PNG / zlib / base64 container of IcyDraw files and the chunk dispatch of load_buffer (exercised, not modelled)',
              'sixel (Role::Image) layers of IcyDraw files beyond their header; PALETTE / SAUCE chunks (no unchecked conversion there)',
              'the ANSI parser outside the CSI parameter accumulator, DECFRA and the hex-macro recorder (C01/C09); stage S still '
              'feeds random streams and scans every cell',
              'allocation behaviour for huge announced sizes (clipboard width*height, font length): C02/C03',
              'BitFont: of from_bytes / load_psf1 / load_psf2 / load_plain_font / create_8 / from_basic the Ok/Err decision, `length` and '
              'the glyph map are modelled; name, size, font_type, the checksum VALUE and the bytes written by convert_to_u8_data / '
              'to_psf2_bytes are not (C17): of the three `0..length` loops only the chars they look up',
              'editor-side producers of clipboard data']
ASSUMPTIONS = ['a `char` is identified with its code point and a String with its bytes',
               'in the release profile char::from_u32_unchecked / String::from_utf8_unchecked materialise their argument unchanged '
               '(that is the undefined behaviour the property excludes); in the dev profile the former aborts the process',
               'Rust u8/u16/u32/i32 operators as written into the model: `as u32` of an i32 is mod 2^32, `char as u8` keeps the low byte, '
               'from_le_bytes is little endian, saturating_* clamp to the i32 range']
RULE = ('per site: the boundary code points 0, 0x7F, 0x80, 0x7FF, 0x800, 0xD7FF, 0xD800, 0xDBFF, 0xDC00, 0xDFFF, 0xE000, 0xFFFD, 0xFFFF, '
        '0x10000, 0x10FFFF, 0x110000, 2^31-1 (and beyond, for saturation) plus seeded random values over the whole numeric range of '
        'the field, embedded in otherwise random well-formed and malformed inputs (rectangles, clipboard records, layer chunks with '
        'short/long/invisible/end-of-line cells, truncations, length fields, titles that are valid / truncated / overlong / surrogate '
        'UTF-8); fonts from 0 to 2^17 glyphs around 55296 and 57344 (PSF1, PSF2, plain, create_8, from_basic), PSF2 headers announcing up '
        'to 2^17 glyphs, and random font files: short / truncated headers, height 0, incomplete last glyph, charsize != height, wrong '
        'version / headersize / length fields; hex macros with repeats, lower-case and non-ASCII digits. '
        'A case is non-trivial when it reaches a conversion; distinct = distinct inputs.')

IMPORTS = 'From IE Require Import Run.RunC10.\nLocal Open Scope N_scope.'
BOUNDS = [0, 1, 31, 32, 65, 0x7F, 0x80, 0xFF, 0x100, 0x7FF, 0x800, 0xD7FF, 0xD800, 0xD801, 0xDBFF, 0xDC00, 0xDFFF, 0xE000, 0xFFFD,
          0xFFFE, 0xFFFF, 0x10000, 0x10FFFF, 0x110000, 0x110001, 0x1FFFFF, 0x7FFFFFFF]
BOUNDS32 = BOUNDS + [0x80000000, 0xFFFFD800, 0xFFFFFFFF]

def is_scalar(x):
    return 0 <= x < 0xD800 or 0xE000 <= x < 0x110000

def hx(b):
    return bytes(b).hex() or '-'

def nlist(v):
    return '[%s]' % '; '.join(map(str, v))

def zlist(v):
    return '[%s]%%Z' % '; '.join(map(str, v))

# --------------------------------------------------------------------------- IcyDraw container (PNG + zTXt + base64)
def _chunk(typ, data):
    return struct.pack('>I', len(data)) + typ + data + struct.pack('>I', zlib.crc32(typ + data) & 0xffffffff)

def _ztxt(key, payload):
    return _chunk(b'zTXt', key.encode('latin1') + b'\0\0' + zlib.compress(base64.b64encode(bytes(payload)), 1))

def icy_file(chunks, w=80, h=25):
    out = b'\x89PNG\r\n\x1a\n' + _chunk(b'IHDR', struct.pack('>IIBBBBB', 1, 1, 8, 6, 0, 0, 0))
    out += _ztxt('ICED', struct.pack('<HIHBBBII', 0, 0, 0, 0, 0, 0, w, h))
    for k, p in chunks:
        out += _ztxt(k, p)
    out += _ztxt('END', b'')
    return out + _chunk(b'IDAT', zlib.compress(b'\0\0\0\0\0')) + _chunk(b'IEND', b'')

def layer_payload(title, w, h, cells, role=0, mode=0, length=None, flags=1):
    b = struct.pack('<I', len(title)) + bytes(title)
    b += bytes([role, 0, 0, 0, 0, mode, 0, 0, 0, 0]) + struct.pack('<I', flags) + bytes([0])
    b += struct.pack('<iiIIH', 0, 0, w & 0xffffffff, h & 0xffffffff, 0)
    b += struct.pack('<Q', len(cells) if length is None else length)
    return b + bytes(cells)

def cell_short(ch, attr=0):
    return struct.pack('<HBBBB', (attr & 0xBFFF) | 0x4000, ch & 255, 7, 0, 0)

def cell_long(ch, attr=0):
    return struct.pack('<HIIIH', attr & 0xBFFF, ch & 0xffffffff, 7, 0, 0)

# --------------------------------------------------------------------------- generators
def rand_code(rng, top=1 << 32):
    r = rng.random()
    if r < 0.45: return rng.choice([b for b in BOUNDS32 if b < top])
    if r < 0.6: return rng.randrange(0xD000, 0xE800)
    if r < 0.75: return rng.randrange(0x10F000, 0x111000) % top
    if r < 0.9: return rng.randrange(min(top, 0x110000))
    return rng.randrange(top)

def rand_utf8(rng, maxlen=24):
    """byte strings around the well-formedness boundaries"""
    parts = []
    n = rng.randint(0, 6)
    for _ in range(n):
        r = rng.random()
        if r < 0.35:
            c = rng.choice([0, 0x41, 0x7F, 0x80, 0x7FF, 0x800, 0xFFF, 0x1000, 0xCFFF, 0xD000, 0xD7FF, 0xE000, 0xFFFD, 0xFFFF, 0x10000,
                            0x3FFFF, 0x40000, 0xFFFFF, 0x100000, 0x10FFFF, rng.randrange(0x110000)])
            if not is_scalar(c): c = 0x2728
            e = chr(c).encode('utf-8')
            if rng.random() < 0.25: e = e[:rng.randint(0, len(e))]          # truncated
            parts.append(e)
        elif r < 0.6:
            parts.append(rng.choice([b'\xc0\x80', b'\xc1\xbf', b'\xe0\x80\x80', b'\xe0\x9f\xbf', b'\xed\xa0\x80', b'\xed\xbf\xbf',
                                     b'\xf0\x80\x80\x80', b'\xf0\x8f\xbf\xbf', b'\xf4\x90\x80\x80', b'\xf5\x80\x80\x80', b'\xff', b'\xfe',
                                     b'\x80', b'\xbf', b'\xe2\x28\xa1', b'\xe2\x82\x28', b'\xf0\x28\x8c\xbc', b'\xf0\x90\x28\xbc',
                                     b'\xf0\x28\x8c\x28', b'\xc2', b'\xe1\x80', b'\xf1\x80\x80', b'\xf4\x8f\xbf\xbf', b'\xed\x9f\xbf',
                                     b'\xee\x80\x80', b'\xef\xbf\xbd']))
        elif r < 0.85:
            parts.append(bytes(rng.randrange(256) for _ in range(rng.randint(1, 4))))
        else:
            lead = rng.choice([0xC2, 0xDF, 0xE0, 0xE1, 0xEC, 0xED, 0xEE, 0xEF, 0xF0, 0xF1, 0xF3, 0xF4])
            parts.append(bytes([lead] + [rng.choice([0x7F, 0x80, 0x8F, 0x90, 0x9F, 0xA0, 0xBF, 0xC0]) for _ in range(rng.randint(0, 3))]))
    return b''.join(parts)[:maxlen]

def gen_fill(rng):
    r = rng.random()
    p = rand_code(rng, 1 << 31) if r < 0.8 else rng.choice([1 << 31, (1 << 32) + 65, 10 ** 12 + 7, 99999999999, 4294967295, 2147483648 + 0xD800])
    pch = str(p)
    if rng.random() < 0.1: pch = '0' * rng.randint(1, 12) + pch
    def coord(hi):
        return rng.choice([0, 1, 2, hi - 1, hi, hi + 1, rng.randint(0, hi + 5), rng.randint(0, hi + 5), 2147483647, 99999999999])
    nums = [pch, str(coord(25)), str(coord(80)), str(coord(25)), str(coord(80))]
    r = rng.random()
    if r < 0.06: nums = nums[:rng.randint(0, 4)]
    elif r < 0.1: nums.append(str(rng.randint(0, 9)))
    elif r < 0.14: nums[rng.randrange(5)] = ''
    text = ';'.join(nums)
    if rng.random() < 0.03: text += ';'
    return text

def gen_clip(rng):
    w, h = rng.randint(0, 5), rng.randint(0, 4)
    b = bytearray([0]) + struct.pack('<iiII', rng.randint(-3, 3), rng.randint(-3, 3), w, h)
    for _ in range(w * h):
        b += struct.pack('<HHHII', rand_code(rng, 1 << 16), rng.choice([0, 0, 1, 0x8000, rng.randrange(1 << 16)]), rng.choice([0, 0, 1, 300]),
                         rng.randrange(1 << 32), rng.randrange(256))
    r = rng.random()
    if r < 0.12 and len(b) > 0: b = b[:rng.randint(0, len(b))]
    elif r < 0.18: b += bytes(rng.randrange(256) for _ in range(rng.randint(1, 20)))
    elif r < 0.22: b[0] = rng.randint(1, 255)
    return bytes(b)

def gen_cells(rng, w, h, code_top=1 << 32):
    """cell records for up to h rows of a w-wide layer"""
    out = bytearray()
    for y in range(max(h, 0) + (1 if rng.random() < 0.1 else 0)):
        x = 0
        while x < w:
            r = rng.random()
            attr = rng.choice([0, 0, 0, 1, 8, 0x200, rng.randrange(1 << 14)])
            if r < 0.12:
                out += struct.pack('<H', 0xC000); break
            if r < 0.22:
                out += struct.pack('<H', 0x8000)
            elif r < 0.27:
                a = 0x8000 | rng.choice([1, 8, 0x100])                      # invisible with an extra flag: a real cell for the decoder
                out += cell_long(rand_code(rng, code_top), a) if rng.random() < 0.5 else cell_short(rand_code(rng, 256), a)
            elif r < 0.6:
                out += cell_short(rand_code(rng, 256), attr)
            else:
                out += cell_long(rand_code(rng, code_top), attr)
            x += 1
    return bytes(out)

def gen_title(rng):
    r = rng.random()
    if r < 0.3: return rng.choice([b'', b'Background', 'Ebene ä€\U0001f600'.encode('utf-8')])
    return rand_utf8(rng, 20)

def gen_layer(rng):
    w = rng.choice([rng.randint(1, 6)] * 6 + [0, -1, 7])
    h = rng.choice([rng.randint(1, 5)] * 6 + [0, -2, 6])
    cells = gen_cells(rng, w, h)
    title = gen_title(rng)
    r = rng.random()
    kw = {}
    if r < 0.04: kw['mode'] = rng.choice([1, 2, 3, 255])
    elif r < 0.07: kw['length'] = rng.choice([len(cells) + 1, len(cells) + 5, 1 << 32, (1 << 64) - 1, (1 << 64) - 30, (1 << 64) - 100])
    elif r < 0.09: kw['length'] = max(0, len(cells) - rng.randint(1, 4))
    elif r < 0.11: kw['flags'] = rng.randrange(32)
    p = layer_payload(title, w, h, cells, **kw)
    r = rng.random()
    if r < 0.1: p = p[:rng.randint(0, len(p))]
    elif r < 0.14: p += bytes(rng.randrange(256) for _ in range(rng.randint(1, 9)))
    return p

def gen_two(rng):
    """a LAYER_0 chunk that holds the first rows and a LAYER_0~1 chunk with the rest"""
    w, h = rng.randint(1, 5), rng.randint(2, 5)
    k = rng.randint(0, h)
    first = gen_cells(rng, w, k)
    cont = gen_cells(rng, w, h - k + (1 if rng.random() < 0.2 else 0))
    if rng.random() < 0.15 and cont: cont = cont[:rng.randint(0, len(cont))]
    return layer_payload(gen_title(rng), w, h, first), cont

HEXD = '0123456789ABCDEF'
def gen_hexmacro(rng):
    """text after `!z` of a hex macro definition; only printable result characters so that the printed row shows the body"""
    def pair():
        v = rng.choice([rng.randrange(0x21, 0x7F), rng.randrange(0xA1, 0xFF)])
        a, b = HEXD[v >> 4], HEXD[v & 15]
        r = rng.random()
        if r < 0.3: b = b.lower()
        if r > 0.93: a = a.lower()                     # first digit is not upper-cased by the parser: error for a..f
        if 0.90 < r <= 0.93: a = chr(ord(a) + 0x100)   # `as u8` keeps the low byte: U+0130 counts as '0'
        if 0.87 < r <= 0.90: b = chr(ord(b) + 0x100 * rng.randint(1, 40))
        return a + b
    out = []; printed = 0
    for _ in range(rng.randint(0, 8)):
        r = rng.random()
        if r < 0.6:
            k = rng.randint(1, 4); out.append(''.join(pair() for _ in range(k))); printed += k
        elif r < 0.9:
            n = rng.choice([0, 1, 2, 3, 5]); k = rng.randint(0, 3)
            out.append('!%s;%s%s' % ('0' * rng.randint(0, 2) + str(n), ''.join(pair() for _ in range(k)), ';' if rng.random() < 0.85 else ''))
            printed += n * k
        elif r < 0.95:
            out.append(rng.choice(['G', 'x', '4', '!', '!;', '!2x', ';', ' ']))
        else:
            out.append(';')
    s = ''.join(out)
    return s if printed <= 200 else '41'

FONT_SIZES = [0, 1, 2, 255, 256, 257, 512, 4096, 55295, 55296, 55297, 57343, 57344, 57345, 65535, 65536, 65537, 100000, 131071, 131072]

def gen_fonts(ctx):
    rng = ctx.rng
    cs = []
    big = ctx.thorough or ctx.escalated
    for n in FONT_SIZES:
        hs = [1, 3] if n > 4096 and not big else [1, 3, 4, 16]
        if n > 60000 and big: hs = [1, 3, 4]
        for h in hs:
            if n > 4096 and not big and rng.random() < 0.5 and n not in (55296, 55297, 57344, 131072): continue
            cs.append(('psf2', n, h, -1))
    for L in [0, 1, 256, 55295, 55296, 55297, 57343, 57344, 65536, 131072]:
        cs.append(('psf2', 0, rng.choice([1, 8, 16]), L))
    for mode in ('create8', 'basic', 'psf1'):
        for n in [0, 1, 255, 256, 257, 600, 55296, 55297, 57344, 57345, 70000] + ([131072] if big else []):
            cs.append((mode, n, rng.choice([1, 3, 4, 8] if n > 4096 else [1, 3, 8, 16, 32]), -1))
    for h in (1, 8, 14, 16, 19, 32):
        cs.append(('plain', 256, h, -1))
    for _ in range(ctx.n(4, 40)):
        cs.append((rng.choice(['psf2', 'create8', 'psf1']), rng.randrange(0, 1 << 17), rng.choice([1, 3, 4]), -1))
    return cs

def psf2_header(version, headersize, length, charsize, height, width=8):
    return struct.pack('<IIIIIIII', 0x864ab572, version, headersize, 0, length, charsize, height, width)

FONT_BYTES_FIXED = [
    (-1, b''), (-1, b'\x36'), (-1, b'\x36\x04'), (-1, b'\x36\x04\x00'), (-1, b'\x72\xb5\x4a'), (-1, b'\x72\xb5\x4a\x86'),
    (-1, b'\x36\x04\x00\x00'), (-1, b'\x36\x04\x00\x00\x01\x02\x03'),          # PSF1 height 0 without / with data (used to hang)
    (-1, b'\x36\x04\x01\x03' + bytes(range(1, 12))),                                # PSF1 mode 512, incomplete last glyph (used to panic)
    (-1, psf2_header(0, 32, 0, 0, 0)[:31]), (-1, psf2_header(0, 32, 0, 0, 0)), (-1, psf2_header(1, 32, 0, 0, 0)),
    (-1, psf2_header(0, 32, 2, 3, 3) + bytes(range(1, 7))), (-1, psf2_header(0, 32, 2, 3, 2) + bytes(range(1, 7))),
    (-1, psf2_header(0, 32, 2, 3, 4) + bytes(range(1, 7))), (-1, psf2_header(0, 32, 2, 3, 0) + bytes(range(1, 7))),
    (-1, psf2_header(0, 32, 3, 2, 2) + bytes(range(1, 6))), (-1, psf2_header(0, 36, 1, 2, 2) + bytes(range(1, 7))),
    (-1, psf2_header(0, 38, 0, 0, 2) + bytes(range(1, 7))), (-1, psf2_header(0, 39, 0, 0, 2) + bytes(range(1, 7))),
    (-1, psf2_header(0, 0, 1, 38, 2) + bytes(range(1, 7))), (-1, psf2_header(0, 0xFFFFFFFF, 0xFFFFFFFF, 0xFFFFFFFF, 2)),
    (-1, psf2_header(0, 32, 55296, 0, 16)), (-1, psf2_header(0, 32, 55297, 0, 16)), (-1, psf2_header(0, 32, 0xFFFFFFFF, 0, 16)),
    (-1, psf2_header(0, 32, 0, 7, 0xFFFFFFFF)),
    # fix fB: glyph sizes outside 1..=8 x 1..=32 and charsize != height are refused (PSF2, PSF1, raw); the boundary loads
    (-1, psf2_header(0, 32, 0, 0, 16, 0)), (-1, psf2_header(0, 32, 0, 0, 0, 8)), (-1, psf2_header(0, 32, 0, 0, 16, 1 << 30)),
    (-1, psf2_header(0, 32, 0, 0, 0xFFFFFFFF, 0xFFFFFFFF)), (-1, psf2_header(0, 32, 1, 33, 33) + bytes(range(33))),
    (-1, psf2_header(0, 32, 1, 32, 32) + bytes(range(32))), (-1, psf2_header(0, 32, 2, 2, 2, 9) + bytes(range(1, 5))),
    (-1, psf2_header(0, 32, 2, 2, 2, 1) + bytes(range(1, 5))), (-1, b'\x36\x04\x00\x21' + bytes(range(66))), (-1, b'\x36\x04\x00\x20' + bytes(range(64))),
    (-1, bytes(32 * 256)), (-1, bytes(33 * 256)),
    (-1, bytes(256)), (-1, bytes(255)), (-1, bytes(range(256)) * 2), (-1, b'\x01' * 257),
    (0, b''), (0, b'\x01\x02\x03'), (1, b''), (3, bytes(range(10))), (3, bytes(range(11))), (255, bytes(300)), (16, bytes(range(256)) * 17),
]

def gen_font_bytes(rng):
    """(h, data): h < 0 -> BitFont::from_bytes(data); else create_8 / from_basic with height h"""
    rb = lambda n: bytes(rng.randrange(256) for _ in range(n))
    r = rng.random()
    if r < 0.12:
        return -1, (rng.choice([b'', b'\x36\x04', b'\x72\xb5\x4a\x86', b'\x72\xb5']) + rb(rng.randint(0, 3)))[:rng.randint(0, 5)]
    if r < 0.32:                                                  # PSF1: any mode, height 0..20, data of any length
        return -1, b'\x36\x04' + bytes([rng.choice([0, 1, 2, 3, 5, rng.randrange(256)]), rng.choice([0, 1, 2, 3, 8, 16, 32, 33, rng.randrange(21)])]) + rb(rng.choice([0, 1, 7, 16, 33, rng.randint(0, 600)]))
    if r < 0.67:                                                  # PSF2
        length = rng.choice([0, 1, 2, 3, 5, 17, 256, rng.randint(0, 40)])
        charsize = rng.choice([0, 1, 2, 3, 8, 16, rng.randint(0, 20)])
        height = rng.choice([charsize, charsize, charsize, 0, 1, charsize + 1, max(charsize - 1, 0), rng.randint(0, 40)])
        extra = rng.choice([0, 0, 0, 1, 4, rng.randint(0, 9)])
        hs = 32 + extra
        body = rb(extra + length * charsize)
        q = rng.random()
        version = 0
        if q < 0.08: version = rng.choice([1, 2, 0xFFFFFFFF])
        elif q < 0.16: hs = rng.choice([0, 31, 33, hs + 1, hs - 1 if extra else 64, 0xFFFFFFFF, len(body) + 32, len(body) + 33])
        elif q < 0.24: body = body[:rng.randint(0, len(body))] if rng.random() < 0.5 else body + rb(rng.randint(1, 5))
        elif q < 0.30: length, charsize, body = rng.choice([55295, 55296, 55297, 65536, 0xFFFFFFFF]), 0, rb(extra); height = rng.choice([0, 1, 16])
        elif q < 0.34: length, charsize = rng.choice([(0xFFFFFFFF, 0xFFFFFFFF), (0x10000, 0x10000), (0, 0xFFFFFFFF)])
        d = psf2_header(version, hs, length, charsize, height, rng.choice([8, 8, 8, 8, 8, 8, 6, 1, 0, 9, rng.randrange(0, 12), 1 << 30, 0xFFFFFFFF])) + body
        if q > 0.95: d = d[:rng.randint(4, 31)]
        return -1, d
    if r < 0.80:                                                  # plain: a multiple of 256 bytes, or not
        n = rng.choice([256, 512, 768, 1024, 4096, 32 * 256, 33 * 256, rng.randint(5, 700)])
        d = bytearray(rb(n))
        if d[:2] == b'\x36\x04': d[0] = 0
        return -1, bytes(d)
    return rng.choice([0, 1, 2, 3, 8, 16, 32, rng.randrange(256)]), rb(rng.choice([0, 1, 255, 256, 512, rng.randint(0, 700)]))

# --------------------------------------------------------------------------- decoding the observations
def grid_of(events, w, h):
    g = {}
    for i in range(0, len(events) - 2, 3):
        g[(events[i], events[i + 1])] = events[i + 2]
    return [g.get((x, y), 32) for y in range(max(h, 0)) for x in range(max(w, 0))]

def parse_icy_impl(v):
    """-> dict(status, invalid_cells, invalid_strings, layers=[(title, image, w, h, lines, grid)], fonts=[(slot, name)])"""
    if v[0] != 0: return {'status': v[0]}
    d = {'status': 0, 'invalid_cells': v[1], 'invalid_strings': v[2], 'layers': [], 'fonts': []}
    n = v[3]; i = 4
    for _ in range(n):
        tl = v[i]; title = v[i + 1:i + 1 + tl]; i += 1 + tl
        image, w, h, lines = v[i:i + 4]; i += 4
        grid = None
        if not image and max(w, 0) * max(h, 0) <= 20000:
            k = max(w, 0) * max(h, 0); grid = v[i:i + k]; i += k
        d['layers'].append((title, image, w, h, lines, grid))
    nf = v[i]; i += 1
    for _ in range(nf):
        slot, tl = v[i], v[i + 1]; d['fonts'].append((slot, v[i + 2:i + 2 + tl])); i += 2 + tl
    return d

def cmp_icy(r, m):
    """harness observation of one-layer file vs run_icy_layer / run_icy_two output; returns None or a description"""
    if m is None: return 'model did not evaluate'
    st = m[0]
    if st == 1: return None if (r[0] == 'ok' and r[1][0] == 1) else 'model: rejected'
    if st == 2: return None if r[0] == 'panic' else 'model: panic'
    if st != 0: return 'model status %d' % st
    if r[0] != 'ok' or r[1][0] != 0: return 'model: loads'
    d = parse_icy_impl(r[1])
    if len(d['layers']) != 1: return 'layers: %d' % len(d['layers'])
    title, image, w, h, lines, grid = d['layers'][0]
    tl = m[1]; mt = m[2:2 + tl]; mi, mw, mh, ml = m[2 + tl:6 + tl]; ev = m[6 + tl:]
    if mt != title: return 'title %r vs %r' % (title, mt)
    if (mi, mw, mh) != (image, w, h): return 'header %r vs %r' % ((image, w, h), (mi, mw, mh))
    if mi: return None
    if ml != lines: return 'line count %d vs %d' % (lines, ml)
    if grid is not None and grid != grid_of(ev, w, h): return 'cells differ'
    return None

# --------------------------------------------------------------------------- stage C
def corr_cases(ctx):
    """(harness case, Gallina expression, comparer) triples"""
    rng = ctx.rng
    cs = []
    def same(r, m):
        return None if (r[0] == 'ok' and m is not None and r[1] == m) else 'differ'
    # std: from_utf8 / from_utf8_lossy / char::from_u32
    strs = [b'', b'A', b'\x80', b'\xed\xa0\x80', b'\xf4\x90\x80\x80', b'\xe2\x9c\xa8\xff\x41', b'\xf0\x9f\x98\x80', b'\xc2']
    strs += [rand_utf8(rng) for _ in range(ctx.n(400, 6000))]
    for s in strs:
        cs.append(('c10utf8 ' + hx(s), 'run_utf8 ' + nlist(s), same))
    for x in BOUNDS32 + [rand_code(rng) for _ in range(ctx.n(100, 2000))]:
        cs.append(('c10char %d' % x, 'run_char %d' % x, same))
    # fill
    texts = ['65;2;3;4;5', '55296;1;1;2;2', '57343;1;1;1;1', '57344;1;1;1;1', '1114111;25;80;25;80', '1114112;1;1;1;1', '2147483647;1;1;2;2',
             '99999999999;1;1;2;2', '32;1;1;5;5', '65;5;5;1;1', ';;;;', '65;0;0;0;0', '65;1;1;99;99']
    texts += [gen_fill(rng) for _ in range(ctx.n(300, 6000))]
    def cmp_fill(r, m):
        if r[0] != 'ok' or m is None: return 'differ'
        if r[1][8:] != [25, 80]: return 'terminal geometry %r' % r[1][8:]
        return None if r[1][:7] == m else 'differ'
    for t in texts:
        cs.append(('c10fill ' + hx(t.encode()), 'run_fill %s 25 80' % zlist([ord(c) for c in t]), cmp_fill))
    # clipboard
    clips = [gen_clip(rng) for _ in range(ctx.n(300, 5000))]
    clips += [b'', b'\0', bytes(17), bytes([0]) + struct.pack('<iiII', 0, 0, 1, 1) + struct.pack('<HHHII', 0xD800, 0, 0, 0, 7)]
    def cmp_clip(r, m):
        if m is None: return 'model did not evaluate'
        if m[0] == 1: return None if r == ('ok', [0]) else 'model: None'
        if m[0] == 2: return None if r[0] == 'panic' else 'model: panic'
        if m[0] != 0 or r[0] != 'ok' or r[1][0] != 1: return 'model: Some'
        w, h = m[1], m[2]
        if r[1][2:4] != [w, h]: return 'size'
        return None if r[1][4:] == grid_of(m[3:], w, h) else 'cells differ'
    for b in clips:
        cs.append(('c10clip ' + hx(b), 'run_clip ' + nlist(b), cmp_clip))
    cs.append(('c10clipsweep', 'run_clip_sweep', same))
    # IcyDraw
    for _ in range(ctx.n(300, 5000)):
        p = gen_layer(rng)
        cs.append(('c10icy ' + hx(icy_file([('LAYER_0', p)])), 'run_icy_layer ' + nlist(p), cmp_icy))
    for _ in range(ctx.n(120, 1500)):
        a, b = gen_two(rng)
        cs.append(('c10icy ' + hx(icy_file([('LAYER_0', a), ('LAYER_0~1', b)])), 'run_icy_two %s %s' % (nlist(a), nlist(b)), cmp_icy))
    def cmp_font_name(r, m):
        if m is None or m[0] != 0 or r[0] != 'ok' or r[1][0] != 0: return 'differ'
        d = parse_icy_impl(r[1])
        return None if (1, m[1:]) in d['fonts'] else 'font name %r vs %r' % (d['fonts'], m[1:])
    for _ in range(ctx.n(12, 120)):
        name = gen_title(rng)
        p = struct.pack('<I', len(name)) + name + bytes((7 * i) & 255 for i in range(256 * 8))
        lay = layer_payload(b'x', 1, 1, cell_short(65) )
        cs.append(('c10icy ' + hx(icy_file([('FONT_1', p), ('LAYER_0', lay)])), 'run_icy_string ' + nlist(p[:4 + len(name) + 3]), cmp_font_name))
    # fonts
    def cmp_font(case):
        mode, n, h, decl = case
        def f(r, m):
            if r[0] != 'ok' or not m: return 'differ'
            v = r[1]
            if m[0] != 0 or v[0] != 0:                     # Err(..) <-> Rejected; the model never says Panic / Diverge here
                return None if (m == [1] and v == [1]) else 'impl %r model %r' % (v[:3], m[:3])
            length = v[1]
            if [v[1], v[2], v[4], v[5], v[6], v[8], v[10]] != m[1:8]: return 'impl %r model %r' % ([v[1], v[2], v[4], v[5], v[6], v[8], v[10]], m[1:8])
            if v[3] != 0: return 'invalid keys'
            if v[7] != length * h or v[9] != 32 + length * h: return 'output sizes'
            if m[8] != length: return 'the checksum loop of the model looks up %d chars, length is %d' % (m[8], length)
            return None
        return f
    MODES = {'psf2': 0, 'psf1': 1, 'plain': 2, 'create8': 3, 'basic': 3}
    for case in gen_fonts(ctx):
        mode, n, h, decl = case
        cs.append(('c10font %s %d %d %d' % case, 'run_font %d %d %d (%d)%%Z' % (MODES[mode], n, h, decl), cmp_font(case)))
    def cmp_font_bytes(r, m):
        if r[0] != 'ok' or not m: return 'differ'
        v = r[1]
        if m[0] != 0 or v[0] != 0:
            return None if (m == [1] and v == [1]) else 'impl %r model %r' % (v[:3], m[:3])
        if [v[1], v[2], v[4], v[5], v[6]] != m[1:6]: return 'impl %r model %r' % ([v[1], v[2], v[4], v[5], v[6]], m[1:6])
        if v[3] != 0: return 'invalid keys'
        return None
    for h, d in FONT_BYTES_FIXED + [gen_font_bytes(rng) for _ in range(ctx.n(250, 4000))]:
        cs.append(('c10fontbytes %d %s' % (h, hx(d)), 'run_font_bytes (%d)%%Z %s' % (h, nlist(d)), cmp_font_bytes))
    # hex macros
    def cmp_hex(r, m):
        if r[0] != 'ok' or m is None: return 'differ'
        e1, e2, inv, x = r[1][:4]
        if m[0] == 1: return None if (e1 == 1 and x == 0) else 'model: rejected'
        if m[0] != 0: return 'model status'
        return None if (e1 == 0 and r[1][4:] == m[1:]) else 'body differs'
    macs = ['4142', '41!3;4243;44', '4a', 'a4', '!2;41', 'İ4', '4', '', '41!0;42;43', '!3;;41'] + [gen_hexmacro(rng) for _ in range(ctx.n(200, 3000))]
    for s in macs:
        cs.append(('c10hexmacro ' + hx(('1;0;1!z' + s).encode('utf-8')), 'run_hexmacro ' + nlist([ord(c) for c in s]), cmp_hex))
    return cs

def correspondence(ctx):
    cs = corr_cases(ctx)
    impl = ctx.impl([c[0] for c in cs], per_case_timeout=60, mem_mb=2048)
    model = ctx.model(IMPORTS, [c[1] for c in cs], timeout=900)
    dis = []; dist = {}; reach = 0
    for (case, expr, cmp), r, m in zip(cs, impl, model):
        kind = case.split()[0]
        dist[kind] = dist.get(kind, 0) + 1
        why = cmp(r, m) if r is not None else 'no result'
        if why is not None:
            dis.append({'case': case[:400], 'expr': expr[:400], 'impl': (r[0], r[1][:40] if isinstance(r[1], list) else r[1]) if r else None,
                        'model': m[:40] if m else m, 'why': why})
        elif m and len(m) > 1:
            reach += 1
    return {'cases': len(cs), 'disagreements': dis, 'distinct_nontrivial': len({c[0] for c in cs}),
            'distribution': {'case_kinds': dist, 'cases_with_model_output_beyond_status': reach,
                             'model_errors': getattr(ctx, 'model_errors', [])[:2]},
            'samples': [cs[8][0][:100], cs[len(cs) // 2][0][:100], cs[-1][0][:100]], 'exhaustive': False}

# --------------------------------------------------------------------------- stage S: the property on the real code
REGRESSIONS = [
    ('fill', 'c10fill ' + hx(b'55296;1;1;2;2'), 'CSI 55296;1;1;2;2 $ x (aborted before the fix)'),
    ('fill', 'c10fill ' + hx(b'1114112;1;1;2;2'), 'CSI 1114112;1;1;2;2 $ x'),
    ('fill', 'c10fill ' + hx(b'2147483647;1;1;25;80'), 'CSI 2147483647;1;1;25;80 $ x'),
    ('clipboard', 'c10clip ' + hx(bytes([0]) + struct.pack('<iiII', 0, 0, 1, 1) + struct.pack('<HHHII', 0xD800, 0, 0, 0, 7)), 'clipboard cell 0xD800'),
    ('clipboard', 'c10clip ' + hx(bytes([0]) + struct.pack('<iiII', 0, 0, 2, 1) + struct.pack('<HHHII', 65, 0, 0, 0, 7) + struct.pack('<HHHII', 0xDFFF, 0, 0, 0, 7)), 'clipboard cell 0xDFFF'),
    ('icy-cell', 'c10icy ' + hx(icy_file([('LAYER_0', layer_payload(b'x', 2, 1, cell_long(0xD800)))])), 'IcyDraw long cell 0xD800'),
    ('icy-cell', 'c10icy ' + hx(icy_file([('LAYER_0', layer_payload(b'x', 2, 1, cell_long(0x110000)))])), 'IcyDraw long cell 0x110000'),
    ('icy-cell', 'c10icy ' + hx(icy_file([('LAYER_0', layer_payload(b'x', 2, 2, cell_short(65) + cell_short(66))), ('LAYER_0~1', cell_long(0xDC00))])),
     'IcyDraw continuation chunk long cell 0xDC00'),
    ('icy-string', 'c10icy ' + hx(icy_file([('LAYER_0', layer_payload(b'\xff\xfeT', 1, 1, cell_short(65)))])), 'IcyDraw layer title FF FE 54'),
    ('icy-string', 'c10icy ' + hx(icy_file([('FONT_1', struct.pack('<I', 2) + b'\xc3\x28' + bytes(4096)), ('LAYER_0', layer_payload(b'x', 1, 1, cell_short(65)))])),
     'IcyDraw font name C3 28'),
    ('font', 'c10font psf2 55297 1 -1', 'PSF2 font with 55297 glyphs'),
    ('font', 'c10font psf2 0 16 55297', 'PSF2 header announcing 55297 glyphs of size 0'),
    ('font', 'c10font create8 55297 1 -1', 'BitFont::create_8 with 55297 glyphs of data'),
    ('font', 'c10font psf1 57345 1 -1', 'PSF1 font with 57345 glyphs of data'),
    ('icy-cell', 'c10icyrt 78 4 2 0 0 65 32769 1 0 66 0', 'cell INVISIBLE|BOLD followed by a visible cell, saved and loaded (C07/C02/C10 ledger entry)'),
    ('hexmacro', 'c10hexmacro ' + hx('1;0;1!zFFFEņņ'.encode('utf-8')), 'hex macro bytes FF FE and non-ASCII digits'),
]

PARSERS = ['ascii', 'atascii', 'avatar', 'ctrla', 'mode7', 'pcboard', 'petscii', 'renegade', 'viewdata']

def gen_stream(rng):
    out = []
    for _ in range(rng.randint(1, 6)):
        r = rng.random()
        if r < 0.45: out.append('\x1b[' + gen_fill(rng) + '$x')
        elif r < 0.6: out.append('\x1bP1;0;1!z' + gen_hexmacro(rng) + '\x1b\\\x1b[1*z')
        elif r < 0.7: out.append('\x1bP1;0;0!z' + ''.join(chr(rand_code(rng, 0x110000)) for _ in range(3) ) .encode('utf-8', 'replace').decode('utf-8') + '\x1b\\\x1b[1*z')
        elif r < 0.8: out.append('\x1b[%d;%d;%d;%d$z' % (rng.randint(0, 30), rng.randint(0, 90), rng.randint(0, 30), rng.randint(0, 90)))
        else: out.append(''.join(chr(c) for c in [rand_code(rng, 0x110000) for _ in range(rng.randint(1, 5))] if is_scalar(c) and c not in (0x1b, 0x7f, 12)))
    return ''.join(out)

def search_cases(ctx, broken):
    rng = ctx.rng
    cs = []
    for b in broken:                                   # inputs on which model and implementation disagreed come first
        d = b.get('detail') or {}
        c = str(d.get('case', '')) if isinstance(d, dict) else ''
        if c.startswith('c10') and len(c) < 400: cs.append(('corr', c, 'stage C disagreement'))
    cs += REGRESSIONS
    n = ctx.n(1, 1)
    cap = lambda q, t: min(ctx.n(q, t), 25000)
    for _ in range(cap(400, 5000)): cs.append(('fill', 'c10fill ' + hx(gen_fill(rng).encode()), None))
    for _ in range(cap(300, 4000)): cs.append(('clipboard', 'c10clip ' + hx(gen_clip(rng)), None))
    cs.append(('clipboard', 'c10clipsweep', 'all 2^16 clipboard character values'))
    for _ in range(cap(300, 4000)): cs.append(('icy', 'c10icy ' + hx(icy_file([('LAYER_0', gen_layer(rng))])), None))
    for _ in range(cap(100, 1500)):
        a, b = gen_two(rng)
        cs.append(('icy', 'c10icy ' + hx(icy_file([('LAYER_0', a), ('LAYER_0~1', b)])), None))
    for _ in range(cap(10, 100)):
        name = gen_title(rng)
        cs.append(('icy-string', 'c10icy ' + hx(icy_file([('FONT_1', struct.pack('<I', len(name)) + name + bytes(4096)),
                                                              ('LAYER_0', layer_payload(gen_title(rng), 1, 1, cell_short(65)))])), None))
    for case in gen_fonts(ctx): cs.append(('font', 'c10font %s %d %d %d' % case, None))
    for h, d in FONT_BYTES_FIXED: cs.append(('font', 'c10fontbytes %d %s' % (h, hx(d)), None))
    for _ in range(cap(200, 3000)):
        h, d = gen_font_bytes(rng)
        cs.append(('font', 'c10fontbytes %d %s' % (h, hx(d)), None))
    for _ in range(cap(200, 3000)): cs.append(('hexmacro', 'c10hexmacro ' + hx(('1;0;1!z' + gen_hexmacro(rng)).encode('utf-8')), None))
    for _ in range(cap(300, 4000)): cs.append(('stream', 'c10stream ' + hx(gen_stream(rng).encode('utf-8')), None))
    for _ in range(cap(200, 3000)):
        # characters of the whole scalar range, many of them with a surrogate in their low 16 bits (char as u16)
        chars = [rng.choice([0x10000, 0x20000, 0x30000, 0xF0000, 0x100000]) + rng.randrange(0xD800, 0xE000) if rng.random() < 0.4
                 else rand_code(rng, 0x110000) for _ in range(rng.randint(1, 12))]
        text = ''.join(chr(c) for c in chars if is_scalar(c) and c != 0x1b)
        cs.append(('parser', 'c10parser %s %s' % (rng.choice(PARSERS), hx(text.encode('utf-8'))), None))
    for _ in range(cap(40, 400)):
        w, h = rng.randint(1, 6), rng.randint(1, 4)
        cells = []
        for _ in range(rng.randint(0, 8)):
            c = rand_code(rng, 0x110000)
            cells += [rng.randrange(w), rng.randrange(h), c if is_scalar(c) else 65, rng.choice([0, 1, 0x8000, 0x8001, 0x8008, 0x4000, 0xC000, 0xC001, rng.randrange(1 << 16)])]
        title = ''.join(chr(c) for c in [rand_code(rng, 0x110000) for _ in range(rng.randint(0, 5))] if is_scalar(c))
        cs.append(('icy', 'c10icyrt %s %d %d %s' % (hx(title.encode('utf-8')), w, h, ' '.join(map(str, cells))), None))
    return cs

def oracle(site, case, r):
    """the property on one observation -> failure dict or None.  Unwinding panics, timeouts and allocation failures are
    other properties' business (C01/C02/C03); an abort or a stack overflow, a non-scalar cell and a non-UTF-8 String are ours."""
    kind = case.split()[0]
    def fail(cls, detail):
        return {'signature': 'C10-%s-%s' % (site, cls), 'input': {'case': case, 'site': site}, 'impl': r, 'expected': 'scalar cells, UTF-8 strings, no abort',
                'detail': detail}
    if r is None: return fail('no-result', 'the worker gave no result')
    if r[0] in ('abort', 'stackoverflow', 'killed'):
        return fail('abort', 'the worker process died (%s: %s)' % r)
    if r[0] != 'ok': return None
    v = r[1]
    if kind == 'c10fill' and v[7] != 0: return fail('invalid-char', '%d cells hold a non-scalar value' % v[7])
    if kind == 'c10clip' and v[0] == 1:
        bad = [x for x in v[4:] if not is_scalar(x)]
        if v[1] != 0 or bad: return fail('invalid-char', 'layer cells hold non-scalar values %r' % bad[:4])
    if kind == 'c10clipsweep' and (v[4] != 0 or v[0] != 63488 or v[1:4] != [2048, 0xD800, 0xDFFF]):
        return fail('invalid-char', 'sweep of all 16-bit cell values: accepted %d, rejected %d (%#x..%#x), wrong %d' % tuple(v))
    if kind == 'c10icy' and v[0] == 0:
        if v[1] != 0: return fail('invalid-char', '%d cells hold a non-scalar value' % v[1])
        if v[2] != 0: return fail('invalid-utf8', '%d layer titles / font names are not UTF-8' % v[2])
    if kind == 'c10icyrt' and v[0] == 0:
        if v[1] != 0: return fail('invalid-char', '%d cells hold a non-scalar value' % v[1])
        if v[2] != 0: return fail('invalid-utf8', '%d strings are not UTF-8' % v[2])
    if kind == 'c10font' and v[0] == 0:
        if v[3] != 0: return fail('invalid-char', '%d glyph keys are not scalar values' % v[3])
        if v[11] != 1: return fail('invalid-utf8', 'font name is not UTF-8')
    if kind == 'c10fontbytes' and v[0] == 0:
        if v[3] != 0: return fail('invalid-char', '%d glyph keys are not scalar values' % v[3])
        if v[7] != 1: return fail('invalid-utf8', 'font name is not UTF-8')
    if kind == 'c10hexmacro' and v[2] != 0: return fail('invalid-char', '%d cells hold a non-scalar value' % v[2])
    if kind in ('c10stream', 'c10parser') and v[1] != 0: return fail('invalid-char', '%d cells hold a non-scalar value' % v[1])
    return None

def search(ctx, broken):
    cs = search_cases(ctx, broken)
    impl = ctx.impl([c[1] for c in cs], per_case_timeout=60, mem_mb=2048)
    failures = []; classes = {}
    for (site, case, what), r in zip(cs, impl):
        cls = r[0] if r else 'none'
        classes[cls] = classes.get(cls, 0) + 1
        f = oracle(site if site != 'corr' else 'site', case, r)
        if f:
            if what: f['detail'] += ' [%s]' % what
            failures.append(f)
    failures.sort(key=lambda f: (f['signature'], len(f['input']['case'])))
    return {'cases': len(cs), 'failures': failures, 'distinct_nontrivial': len({c[1] for c in cs}),
            'worker_exit_classes': classes, 'regression_inputs': [w for _, _, w in REGRESSIONS],
            'samples': [cs[0][1][:100], cs[len(cs) // 2][1][:100]]}

# --------------------------------------------------------------------------- replay
def replay(ctx, body):
    from vlib import driver
    inp = body.get('input')
    print('replay', ID, json.dumps(inp)[:600])
    if not (isinstance(inp, dict) and 'case' in inp):
        print(json.dumps(body, indent=1)[:4000]); return 1
    ok, out = driver.stage_build()
    if not ok:
        print(out[-2000:]); return 2
    r = ctx.impl([inp['case']], per_case_timeout=60, mem_mb=2048)[0]
    print('implementation:', (r[0], r[1][:60]) if r and isinstance(r[1], list) else r)
    f = oracle(inp.get('site', 'site'), inp['case'], r)
    if f:
        print('property violated:', f['signature'], '-', f['detail']); return 1
    print('property holds on this input'); return 0

LEVEL_TEXT = ('Machine-checked proof (Coq, closed under the global context) that at every place where icy_engine turns input-derived '
              'numbers into chars or input bytes into Strings, whatever is stored is a Unicode scalar value / well-formed UTF-8, for ALL '
              'inputs: every digit string of the DECFRA fill parameter (the saturating accumulator is proved to stay in 0..2^31-1), every '
              'clipboard byte string, every IcyDraw LAYER_n and LAYER_n~k payload (header, short/long/invisible/end-of-line cells, any '
              'length), every font data length and height, every byte string handed to BitFont::from_bytes (PSF1 / PSF2 / plain: it returns Ok or '
              'Err, keys and `length` stay below MAX_GLYPHS = 0xD800), every hex-macro text. UTF-8 is specified as the '
              'encoding of scalar values; the validator is proved sound AND complete against it, String::from_utf8_lossy (as a model '
              'of std, tied to std on every run) is proved to always yield UTF-8 and to be the identity on UTF-8. Which conversion each '
              'site calls (checked or unchecked) is re-read from the Rust source on every run together with a census of every '
              '`unsafe`/unchecked call of the crate, so a new or re-opened unchecked conversion breaks the proof. The theorems are '
              'about the merged tree: five C10 fix commits (fill, clipboard, IcyDraw cells, IcyDraw strings, fonts) plus the fonts.rs '
              'commits of C17 (glyph loop bounded by height / data / MAX_GLYPHS, load_psf2 header validation), whose statements are '
              'token-pinned; the pre-fix expressions (for fonts: the pre-fix loop) are refuted in Coq and their witnesses are replayed on the real code on every run. Full level.')
LEVEL_NOTE = ('Trusted: Coq kernel + vm_compute; the python translator (which conversion is called where, census of unsafe code); '
              'Model/Unicode.v as description of std (differentially tied); the hand-written site loops (differentially tied through the '
              'public API, including hand-built .icy containers); safety of safe Rust for chars/Strings not built by unchecked calls.')
TECHNIQUE = ('Coq proof: UTF-8 validator/lossy converter vs. an encoding specification (arithmetic with lia + Euclidean division), '
             'fuel/structural induction over the decoding loops with explicit panic branches; translator tie for the conversion kind '
             'of every site + crate-wide unsafe census; differential tie of the loops; abort/UTF-8/scalar oracle on the real code')
