#!/bin/sh
# tools_worktree.sh <name>: private worktrees of /verif and /repo for building one property in isolation
set -e
n=$1
mkdir -p /work/$n
git -C /verif worktree add -q /work/$n/verif -b w-$n
git -C /repo worktree add -q /work/$n/repo -b fix-$n
echo "/work/$n ready"
