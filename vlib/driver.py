"""Driver shared by every property check: stages G (generate), P (prove), B (build),
C (correspond), S (search); verdict, evidence, replays, known findings.
See DESIGN.md section 2 for the protocol."""
import os, sys, json, time, subprocess, random, re, hashlib, fcntl, resource, signal, threading, importlib, glob, shutil

VERIF = os.path.dirname(os.path.dirname(os.path.abspath(__file__)))
REPO = os.environ.get('VERIF_REPO', '/repo')
COQ = os.path.join(VERIF, 'coq')
HARNESS = os.path.join(VERIF, 'harness')
WORK = os.path.join(VERIF, 'work')
GUARD = 'icy_engine_verif'
ALLOWED_AXIOMS = set()   # names that may appear under `Axioms:` in Print Assumptions (none so far)
FORBIDDEN = re.compile(r'\b(Admitted|admit|Axiom|Axioms|Parameter|Parameters|Conjecture|Conjectures|Hypothesis|Hypotheses|Variable|Variables|bypass_check)\b|Unset\s+Guard|Unset\s+Positivity|Unset\s+Universe|type-in-type|impredicative-set|Admit\s+Obligations')

def log(*a):
    print(*a, flush=True)

def sh(cmd, cwd=None, timeout=None, env=None, input=None):
    e = dict(os.environ)
    e['CARGO_NET_OFFLINE'] = 'true'
    if env: e.update(env)
    try:
        p = subprocess.run(cmd, cwd=cwd, shell=isinstance(cmd, str), stdout=subprocess.PIPE, stderr=subprocess.STDOUT,
                           timeout=timeout, env=e, input=input, text=True, errors='replace')
        return p.returncode, p.stdout
    except subprocess.TimeoutExpired as ex:
        out = ex.stdout or ''
        if isinstance(out, bytes): out = out.decode('utf-8', 'replace')
        return 124, out + '\n[timeout after %ss]' % timeout

class Lock:
    def __init__(self, name):
        os.makedirs(WORK, exist_ok=True)
        self.path = os.path.join(WORK, name + '.lock')
    def __enter__(self):
        self.f = open(self.path, 'w')
        fcntl.flock(self.f, fcntl.LOCK_EX)
        return self
    def __exit__(self, *a):
        fcntl.flock(self.f, fcntl.LOCK_UN)
        self.f.close()

def strip_coq_comments(s):
    out = []; depth = 0; i = 0
    while i < len(s):
        if s.startswith('(*', i): depth += 1; i += 2
        elif s.startswith('*)', i) and depth: depth -= 1; i += 2
        else:
            if not depth: out.append(s[i])
            i += 1
    return ''.join(out)

# ---------------------------------------------------------------------------
def _big_stack():
    try:
        resource.setrlimit(resource.RLIMIT_STACK, (resource.RLIM_INFINITY, resource.RLIM_INFINITY))
    except (ValueError, OSError):
        pass

class Ctx:
    def __init__(self, pid, tier, seed):
        self.pid = pid; self.tier = tier; self.seed = seed
        self.rng = random.Random((seed << 8) ^ int(hashlib.sha256(pid.encode()).hexdigest()[:8], 16))
        self.repo = REPO
        self.t0 = time.time()
        self.notes = []
        self.escalated = False
        self.thorough = (tier == 'thorough')

    def n(self, quick, thorough):
        return thorough if (self.thorough or self.escalated) else quick

    # ---- implementation side: worker processes --------------------------------
    def impl(self, cases, per_case_timeout=5.0, mem_mb=1024, jobs=8, profile='debug'):
        """cases: list of strings `<kind> <args…>`; returns list of (cls, payload) in order.
        cls in ok|err|panic|abort|stackoverflow|timeout|oom|killed ; ok payload = list of ints."""
        exe = os.path.join(HARNESS, 'target', profile, 'ievh')
        n = len(cases)
        results = [None] * n
        jobs = max(1, min(jobs, (n + 199) // 200))
        chunks = [list(range(k, n, jobs)) for k in range(jobs)]
        def worker(idxs):
            pos = 0
            while pos < len(idxs):
                pos = self._run_worker(exe, cases, idxs, pos, results, per_case_timeout, mem_mb)
        th = [threading.Thread(target=worker, args=(c,)) for c in chunks if c]
        for t in th: t.start()
        for t in th: t.join()
        # A wall-clock timeout on a loaded machine is not yet a verdict: every timed-out case is run again alone, with a
        # CPU-time limit of the same budget (SIGXCPU = the case really needs more than the budget) and a wall-clock
        # limit six times as long (a case that blocks without using the CPU still ends as a timeout).
        slow = [i for i in range(n) if results[i] and results[i][0] == 'timeout']
        def confirm(part):
            for i in part:
                first = results[i]; results[i] = None
                self._run_worker(exe, cases, [i], 0, results, per_case_timeout * 6, mem_mb, cpu=int(per_case_timeout + 0.999))
                if results[i] is None: results[i] = first
        th = [threading.Thread(target=confirm, args=(slow[k::8],)) for k in range(8) if slow[k::8]]
        for t in th: t.start()
        for t in th: t.join()
        return results

    def _run_worker(self, exe, cases, idxs, pos, results, tmo, mem_mb, cpu=None):
        def limits():
            resource.setrlimit(resource.RLIMIT_AS, (mem_mb << 20, mem_mb << 20))
            resource.setrlimit(resource.RLIMIT_CORE, (0, 0))
            if cpu: resource.setrlimit(resource.RLIMIT_CPU, (cpu, cpu + 1))
        p = subprocess.Popen([exe], stdin=subprocess.PIPE, stdout=subprocess.PIPE, stderr=subprocess.PIPE,
                             preexec_fn=limits, text=True, errors='replace', bufsize=1)
        errbuf = []
        et = threading.Thread(target=lambda: errbuf.append(p.stderr.read()), daemon=True); et.start()
        # feed everything remaining in a thread (so a dying worker does not block us)
        todo = idxs[pos:]
        def feed():
            try:
                for i in todo:
                    p.stdin.write('%d %s\n' % (i, cases[i]))
                p.stdin.close()
            except (BrokenPipeError, OSError, ValueError):
                pass
        ft = threading.Thread(target=feed, daemon=True); ft.start()
        current = None
        timer = [None]
        timed_out = [False]
        def arm():
            if timer[0]: timer[0].cancel()
            def kill():
                timed_out[0] = True
                try: p.kill()
                except OSError: pass
            timer[0] = threading.Timer(tmo, kill); timer[0].start()
        arm()
        done = 0
        for line in p.stdout:
            parts = line.split()
            if len(parts) < 2: continue
            i = int(parts[0])
            if parts[1] == 'start':
                current = i; arm(); continue
            if parts[1] == 'ok':
                results[i] = ('ok', [int(x) for x in parts[2:]])
            else:
                results[i] = (parts[1], ' '.join(parts[2:]))
            current = None; done += 1
            arm()
        if timer[0]: timer[0].cancel()
        p.wait(); et.join(2)
        if done == len(todo):
            return len(idxs)
        # the worker died while running `current`
        if current is None:
            current = todo[done]
        err = (errbuf[0] if errbuf else '') or ''
        if timed_out[0] or p.returncode in (-signal.SIGXCPU, -signal.SIGKILL) and cpu: cls = 'timeout'
        elif 'memory allocation' in err or 'out of memory' in err.lower() or 'capacity overflow' in err: cls = 'oom'
        elif 'stack overflow' in err: cls = 'stackoverflow'
        elif p.returncode == -signal.SIGABRT: cls = 'abort'
        elif p.returncode == -signal.SIGSEGV: cls = 'stackoverflow'
        else: cls = 'killed'
        results[current] = (cls, err.strip().splitlines()[-1][:200] if err.strip() else 'rc=%s' % p.returncode)
        return pos + todo.index(current) + 1

    # ---- model side: evaluate inside Coq ----------------------------------------
    def model(self, imports, exprs, shards=16, timeout=600):
        """exprs: list of Gallina expressions of type list Z / list N (or anything whose printed form
        contains only the integers of interest). Returns list of int lists (None where evaluation failed)."""
        os.makedirs(os.path.join(COQ, 'Cases'), exist_ok=True)
        n = len(exprs)
        shards = max(1, min(shards, (n + 49) // 50))
        out = [None] * n
        procs = []
        for s in range(shards):
            idx = list(range(s, n, shards))
            if not idx: continue
            name = '%s_%d' % (self.pid, s)
            path = os.path.join(COQ, 'Cases', name + '.v')
            with open(path, 'w') as f:
                f.write('From Coq Require Import NArith ZArith List String.\nImport ListNotations.\n')
                f.write(imports + '\nSet Printing Width 1000000.\nSet Printing Depth 1000000.\n')
                for i in idx:
                    f.write('Eval vm_compute in (%s).\n' % exprs[i])
            outf = open(path + '.out', 'w')
            p = subprocess.Popen(['coqc', '-noglob', '-Q', COQ, 'IE', path], stdout=outf,
                                 stderr=subprocess.STDOUT, cwd=COQ, preexec_fn=_big_stack)
            procs.append((p, idx, path, outf))
        self.model_errors = []
        deadline = time.time() + timeout
        for p, idx, path, outf in procs:
            try:
                p.wait(timeout=max(1, deadline - time.time()))
                extra = ''
            except subprocess.TimeoutExpired:
                p.kill(); p.wait(); extra = '\n[timeout]'
            outf.close()
            with open(path + '.out', errors='replace') as f:
                o = f.read() + extra
            vals = []
            cur = None
            for line in o.splitlines():
                if line.startswith('     = '):
                    cur = [line[7:]]
                elif line.startswith('     : '):
                    if cur is not None: vals.append(' '.join(cur)); cur = None
                elif cur is not None:
                    cur.append(line)
            if p.returncode != 0 or len(vals) != len(idx):
                self.model_errors.append(o[-2000:])
            for k, i in enumerate(idx):
                if k < len(vals):
                    out[i] = [int(x) for x in re.findall(r'-?\d+', vals[k])]
        return out

# ---------------------------------------------------------------------------
def write_if_changed(path, content):
    old = None
    if os.path.exists(path):
        with open(path) as f: old = f.read()
    if old != content:
        os.makedirs(os.path.dirname(path), exist_ok=True)
        with open(path, 'w') as f: f.write(content)
        return True
    return False

def all_plugins():
    names = sorted(os.path.basename(p)[:-3] for p in glob.glob(os.path.join(VERIF, 'props', 'c[0-9][0-9].py')))
    return [importlib.import_module('props.' + n) for n in names]

def stage_generate(plugins):
    """run the translators of the given plugins; returns (changed_files, errors{pid: msg})"""
    changed = []; errors = {}
    done = set()
    for pl in plugins:
        for gen in getattr(pl, 'GENERATORS', []):
            if gen in done: continue
            done.add(gen)
            try:
                mod = importlib.import_module('translator.' + gen)
                files = mod.generate(REPO)
            except Exception as ex:   # TranslateError or anything the source edit provoked
                errors[gen] = '%s: %s' % (type(ex).__name__, ex)
                continue
            for name, content in files.items():
                if write_if_changed(os.path.join(COQ, 'Gen', name), content):
                    changed.append('Gen/' + name)
    return changed, errors

def coq_sources():
    files = []
    for d in ('Lib', 'Gen', 'Model', 'Proofs', 'Props', 'Run'):
        files += sorted(glob.glob(os.path.join(COQ, d, '*.v')))
    return [os.path.relpath(f, COQ) for f in files]

def ensure_makefile():
    files = coq_sources()
    proj = '-Q . IE\n' + '\n'.join(files) + '\n'
    ch = write_if_changed(os.path.join(COQ, '_CoqProject'), proj)
    if ch or not os.path.exists(os.path.join(COQ, 'Makefile')):
        rc, out = sh('coq_makefile -f _CoqProject -o Makefile', cwd=COQ, timeout=120)
        if rc != 0: raise RuntimeError('coq_makefile failed: ' + out)
        # dependency file is stale when the file set changes
        for f in ('.Makefile.d',):
            try: os.remove(os.path.join(COQ, f))
            except OSError: pass

def stage_prove(targets, timeout):
    ensure_makefile()
    rc, out = sh(['make', '-j16', '-k'] + targets, cwd=COQ, timeout=timeout)
    broken = []
    if rc != 0:
        for m in re.finditer(r'File "\./([^"]+)", line (\d+), characters [\d-]+:\n((?:.*\n){0,12}?)(?=make|File|COQC|$)', out):
            broken.append({'file': m.group(1), 'line': int(m.group(2)), 'message': ' '.join(m.group(3).split())[:600]})
        if not broken:
            broken.append({'file': '?', 'line': 0, 'message': out[-1500:]})
        for b in broken:
            b['lemma'] = enclosing_lemma(os.path.join(COQ, b['file']), b['line'])
    return rc == 0, broken, out

def enclosing_lemma(path, line):
    try:
        with open(path) as f: lines = f.readlines()
    except OSError:
        return None
    for i in range(min(line, len(lines)) - 1, -1, -1):
        m = re.match(r'\s*(?:Local\s+|Global\s+|#\[[^\]]*\]\s*)*(Lemma|Theorem|Example|Corollary|Definition|Fixpoint|Instance|Fact|Remark)\s+([A-Za-z0-9_\']+)', lines[i])
        if m: return m.group(2)
    return None

def closure_files(targets):
    """source files in the dependency closure of the targets (from coqdep output)"""
    dep = {}
    try:
        with open(os.path.join(COQ, '.Makefile.d')) as f:
            txt = f.read().replace('\\\n', ' ')
    except OSError:
        return coq_sources()
    for line in txt.splitlines():
        if ':' not in line: continue
        l, r = line.split(':', 1)
        for t in l.split():
            if t.endswith('.vo'):
                dep[t] = [x for x in r.split() if x.endswith('.vo') and not x.startswith('/')]
    seen = set(); stack = list(targets)
    while stack:
        t = stack.pop()
        if t in seen: continue
        seen.add(t); stack += dep.get(t, [])
    return sorted(t[:-1] for t in seen)

def audit(pl, targets):
    """forbidden constructs + Print Assumptions of every property theorem. Returns (ok, details)"""
    details = {'forbidden': [], 'assumptions': {}, 'files': []}
    files = closure_files(targets)
    details['files'] = files
    for f in files:
        try:
            with open(os.path.join(COQ, f)) as fh: src = strip_coq_comments(fh.read())
        except OSError:
            continue
        for m in FORBIDDEN.finditer(src):
            # Section-local Variable/Hypothesis are allowed only inside a Section (checked by closedness below)
            word = m.group(0)
            if word.split()[0] in ('Variable', 'Variables', 'Hypothesis', 'Hypotheses'):
                pre = src[:m.start()]
                if len(re.findall(r'\bSection\s+\w+', pre)) > len(re.findall(r'\bEnd\s+\w+\s*\.', pre)):
                    continue
            details['forbidden'].append('%s: %s' % (f, word))
    thms = pl.THEOREMS
    path = os.path.join(COQ, 'Cases', pl.ID + '_assum.v')
    os.makedirs(os.path.dirname(path), exist_ok=True)
    with open(path, 'w') as fh:
        fh.write('From IE Require Import %s.\n' % pl.PROPS_MODULE)
        for t in thms:
            fh.write('Print Assumptions %s.\n' % t)
    rc, out = sh(['coqc', '-noglob', '-Q', COQ, 'IE', path], cwd=COQ, timeout=300)
    if rc != 0:
        details['assumptions_error'] = out[-1500:]
        return False, details
    blocks = re.split(r'(?=Closed under the global context|Axioms:)', out)
    blocks = [b for b in blocks if b.startswith('Closed') or b.startswith('Axioms:')]
    ok = (len(blocks) == len(thms)) and not details['forbidden']
    for t, b in zip(thms, blocks):
        if b.startswith('Closed'):
            details['assumptions'][t] = []
        else:
            names = re.findall(r'^([A-Za-z_][\w\.\']*)\s*:', b[len('Axioms:'):], re.M)
            details['assumptions'][t] = names
            if any(x not in ALLOWED_AXIOMS for x in names): ok = False
    return ok, details

def stage_build(profile='debug'):
    with open(os.path.join(HARNESS, 'Cargo.toml.in')) as f:
        write_if_changed(os.path.join(HARNESS, 'Cargo.toml'), f.read().replace('@REPO@', REPO))
    if not os.path.exists(os.path.join(HARNESS, 'Cargo.lock')):
        shutil.copy(os.path.join(REPO, 'Cargo.lock'), os.path.join(HARNESS, 'Cargo.lock'))
    cmd = ['cargo', 'build', '--offline'] + (['--release'] if profile == 'release' else [])
    rc, out = sh(cmd, cwd=HARNESS, timeout=1800, env={'RUSTFLAGS': '--cfg ' + GUARD, 'CARGO_TARGET_DIR': os.path.join(HARNESS, 'target')})
    return rc == 0, out

# ---------------------------------------------------------------------------
def load_known():
    """known_findings.json plus per-property fragments known_findings.d/*.json (all committed, read-only at run time)"""
    out = []
    p = os.path.join(VERIF, 'known_findings.json')
    with open(p) as f: out += json.load(f)
    for q in sorted(glob.glob(os.path.join(VERIF, 'known_findings.d', '*.json'))):
        with open(q) as f: out += json.load(f)
    return out

def write_replay(pid, kind, body):
    os.makedirs(os.path.join(VERIF, 'replays'), exist_ok=True)
    h = hashlib.sha256(json.dumps(body, sort_keys=True).encode()).hexdigest()[:10]
    name = 'replays/%s-%s.json' % (pid, 'unproved' if kind == 'unproved' else h)
    body = dict(body); body['property'] = pid; body['kind'] = kind
    with open(os.path.join(VERIF, name), 'w') as f:
        json.dump(body, f, indent=1, sort_keys=True)
    return name

def run_check(pid, tier, seed, replay=None):
    pl = importlib.import_module('props.' + pid.lower())
    ctx = Ctx(pid, tier, seed)
    if replay:
        with open(replay) as f: body = json.load(f)
        return pl.replay(ctx, body)
    ev = {'property_id': pid, 'tier': tier, 'seed': seed, 'level': 'proof', 'violations': 0}
    cov = {'trusted_base': list(getattr(pl, 'TRUSTED', [])), 'unmodelled': list(getattr(pl, 'UNMODELLED', []))}
    broken = []          # things that no longer check (G, P, C)
    stage = {}
    with Lock('build'):
        t = time.time()
        changed, gen_errors = stage_generate([pl])
        stage['generate'] = {'changed': changed, 'errors': gen_errors, 's': round(time.time() - t, 1)}
        for g, msg in gen_errors.items():
            broken.append({'stage': 'generate', 'what': 'translator %s cannot extract the modelled code from the source' % g, 'detail': msg})
        t = time.time()
        targets = list(pl.COQ_TARGETS)
        proved = False; audit_ok = False; audit_details = {}
        if not gen_errors:
            proved, pbroken, pout = stage_prove(targets, timeout=ctx.n(900, 1800))
            for b in pbroken:
                broken.append({'stage': 'prove', 'what': 'proof obligation no longer checks: %s in %s' % (b.get('lemma'), b['file']), 'detail': b})
            if proved:
                audit_ok, audit_details = audit(pl, targets)
                if not audit_ok:
                    broken.append({'stage': 'prove', 'what': 'assumption audit failed', 'detail': audit_details})
        stage['prove'] = {'targets': targets, 'ok': proved and audit_ok, 's': round(time.time() - t, 1),
                          'assumptions': audit_details.get('assumptions'), 'closure': audit_details.get('files')}
        t = time.time()
        built, bout = stage_build()
        stage['build'] = {'ok': built, 's': round(time.time() - t, 1)}
    if not built:
        log('harness / repository does not build:\n' + bout[-3000:])
        log('ERROR property=%s cannot build /repo with the harness; no verdict' % pid)
        return 2
    # obligations
    n_thm = len(pl.THEOREMS) + len(getattr(pl, 'SWEEP_LEMMAS', []))
    cov['obligations'] = n_thm
    cov['discharged'] = n_thm if (proved and audit_ok) else 0
    cov['theorems'] = list(pl.THEOREMS); cov['sweep_lemmas'] = list(getattr(pl, 'SWEEP_LEMMAS', []))
    cov['checker_cmd'] = 'cd /verif/coq && make -j16 %s && coqc -Q . IE Cases/%s_assum.v   (Print Assumptions of each theorem; run by ./check %s)' % (' '.join(targets), pid, pid)
    # correspondence
    t = time.time()
    corr = {'cases': 0, 'disagreements': []}
    if proved or not gen_errors:
        try:
            corr = pl.correspondence(ctx)
        except Exception as ex:
            corr = {'cases': 0, 'disagreements': [{'error': 'correspondence stage crashed: %r' % ex}]}
    else:
        corr = {'cases': 0, 'disagreements': [], 'skipped': 'model could not be generated'}
    corr['s'] = round(time.time() - t, 1)
    for d in corr['disagreements'][:5]:
        broken.append({'stage': 'correspond', 'what': 'model and implementation disagree', 'detail': d})
    if broken:
        ctx.escalated = True
    # search
    t = time.time()
    srch = pl.search(ctx, broken)
    srch['s'] = round(time.time() - t, 1)
    known = [k for k in load_known() if k['property'] == pid and k['status'] == 'known']
    known_sigs = {k['signature']: k for k in known}
    rc = 0
    seen_known = {}
    new_fail = []
    for f in srch['failures']:
        if f['signature'] in known_sigs: seen_known.setdefault(f['signature'], f)
        else: new_fail.append(f)
    for sig, f in seen_known.items():
        log('KNOWN-FINDING: property=%s %s (%s)' % (pid, sig, known_sigs[sig]['what']))
    for k in known:
        if k['signature'] not in seen_known and k.get('always_report', True):
            log('KNOWN-FINDING: property=%s %s (%s) [not re-observed in this run]' % (pid, k['signature'], k['what']))
    reported = set()
    for f in new_fail:
        if f['signature'] in reported: continue
        reported.add(f['signature'])
        path = write_replay(pid, 'failing-input', {'seed': seed, 'signature': f['signature'], 'input': f.get('input'),
                                                  'impl_observation': f.get('impl'), 'expected': f.get('expected'),
                                                  'detail': f.get('detail'), 'broken': [b['what'] for b in broken]})
        log('VIOLATION property=%s replay=%s' % (pid, path))
        rc = 1
    if broken and not new_fail:
        path = write_replay(pid, 'unproved', {'seed': seed, 'broken': broken,
                                              'note': 'the theorem / generated definition / correspondence named here no longer checks; the escalated search found no failing input'})
        log('VIOLATION property=%s replay=%s no-failing-input-found' % (pid, path))
        rc = 1
    ev['violations'] = len(reported) + (1 if (broken and not new_fail) else 0)
    cov['stages'] = stage
    cov['correspondence'] = {k: v for k, v in corr.items() if k != 'disagreements'}
    cov['correspondence']['disagreements'] = len(corr['disagreements'])
    cov['search'] = {k: v for k, v in srch.items() if k not in ('failures', 'samples')}
    cov['search']['failures'] = len(srch['failures'])
    cov['search']['known_findings_seen'] = sorted(seen_known)
    cov['evaluations'] = int(corr.get('cases', 0)) + int(srch.get('cases', 0))
    cov['distinct_nontrivial'] = int(corr.get('distinct_nontrivial', 0)) + int(srch.get('distinct_nontrivial', 0))
    cov['rule'] = getattr(pl, 'RULE', '')
    cov['samples'] = (corr.get('samples', []) + srch.get('samples', []))[:8]
    cov['exhaustive'] = bool(corr.get('exhaustive', False))
    cov['broken'] = broken
    ev['coverage'] = cov
    ev['assumptions'] = list(getattr(pl, 'ASSUMPTIONS', []))
    ev['wall_s'] = round(time.time() - ctx.t0, 1)
    os.makedirs(os.path.join(VERIF, 'evidence'), exist_ok=True)
    with open(os.path.join(VERIF, 'evidence', pid + '.json'), 'w') as f:
        json.dump(ev, f, indent=1, sort_keys=True)
    log('%s: %s  (G %s, P %s, C %d cases/%d disagreements, S %d cases/%d failures, %.0fs)' % (
        pid, 'OK' if rc == 0 else 'VIOLATION', 'ok' if not gen_errors else 'BROKEN', 'ok' if (proved and audit_ok) else 'BROKEN',
        corr.get('cases', 0), len(corr['disagreements']), srch.get('cases', 0), len(srch['failures']), time.time() - ctx.t0))
    return rc

def setup():
    t0 = time.time()
    plugins = all_plugins()
    with Lock('build'):
        changed, errs = stage_generate(plugins)
        if errs: log('generate errors: %r' % errs)
        targets = sorted({t for pl in plugins for t in pl.COQ_TARGETS})
        ok, broken, out = stage_prove(targets, timeout=3600)
        if not ok:
            log(out[-4000:]); log('setup: Coq build FAILED'); return 1
        ok, out = stage_build()
        if not ok:
            log(out[-4000:]); log('setup: harness build FAILED'); return 1
    log('setup ok in %.0fs' % (time.time() - t0))
    return 0
