"""Tiny Rust-source reader used by the translator (stage G).

It is deliberately small: a tokenizer, an item finder (fn / const / static by
name), a template matcher with holes over token streams and a translator for a
subset of integer expressions into Gallina over N.  Anything outside the subset
raises TranslateError, which stage G reports as a broken tie.
"""
import re, hashlib

class TranslateError(Exception):
    pass

_PUNCT = ['<<=', '>>=', '...', '..=', '::', '->', '=>', '==', '!=', '<=', '>=', '&&', '||',
          '+=', '-=', '*=', '/=', '%=', '^=', '&=', '|=', '<<', '>>', '..']

def tokenize(src):
    toks = []
    i, n = 0, len(src)
    while i < n:
        c = src[i]
        if c.isspace():
            i += 1; continue
        if src.startswith('//', i):
            j = src.find('\n', i)
            i = n if j < 0 else j
            continue
        if src.startswith('/*', i):
            depth = 1; i += 2
            while i < n and depth:
                if src.startswith('/*', i): depth += 1; i += 2
                elif src.startswith('*/', i): depth -= 1; i += 2
                else: i += 1
            continue
        if c == '"' or (c in 'br' and re.match(r'b?r?#*"', src[i:i+6] or '')):
            m = re.match(r'b?r(#*)"', src[i:])
            if m:
                end = src.find('"' + m.group(1), i + len(m.group(0)))
                j = end + 1 + len(m.group(1))
            else:
                j = i + (2 if c == 'b' else 1)
                while j < n and src[j] != '"':
                    j += 2 if src[j] == '\\' else 1
                j += 1
            toks.append(('str', src[i:j])); i = j; continue
        if c == "'" or (c == 'b' and i + 1 < n and src[i+1] == "'"):
            k = i + (1 if c == 'b' else 0)
            m = re.match(r"'(\\x[0-9a-fA-F]{2}|\\u\{[0-9a-fA-F]+\}|\\.|[^\\'])'", src[k:])
            if m:
                toks.append(('char', src[i:k+len(m.group(0))])); i = k + len(m.group(0)); continue
            m = re.match(r"'[A-Za-z_][A-Za-z0-9_]*", src[k:])
            if m and c == "'":
                toks.append(('life', m.group(0))); i = k + len(m.group(0)); continue
        if c.isdigit():
            m = re.match(r'0x[0-9a-fA-F_]+|0b[01_]+|0o[0-7_]+|[0-9][0-9_]*(\.[0-9][0-9_]*)?', src[i:])
            j = i + len(m.group(0))
            m2 = re.match(r'(u8|u16|u32|u64|u128|usize|i8|i16|i32|i64|i128|isize|f32|f64)', src[j:])
            suf = ''
            if m2:
                suf = m2.group(0);
            toks.append(('num', m.group(0).replace('_', ''), suf)); i = j + len(suf); continue
        if c.isalpha() or c == '_':
            m = re.match(r'[A-Za-z_][A-Za-z0-9_]*', src[i:])
            toks.append(('id', m.group(0))); i += len(m.group(0)); continue
        for p in _PUNCT:
            if src.startswith(p, i):
                toks.append(('p', p)); i += len(p); break
        else:
            toks.append(('p', c)); i += 1
    return toks

def tok_text(t):
    return t[1] + (t[2] if t[0] == 'num' else '')

def norm_text(toks):
    return ' '.join(tok_text(t) for t in toks)

def token_hash(toks):
    return hashlib.sha256(norm_text(toks).encode()).hexdigest()[:16]

_OPEN = {'(': ')', '[': ']', '{': '}'}

def match_close(toks, i):
    """toks[i] is an opener; return index of its closer."""
    depth = 0
    j = i
    while j < len(toks):
        t = toks[j]
        if t[0] == 'p' and t[1] in _OPEN: depth += 1
        elif t[0] == 'p' and t[1] in ')]}':
            depth -= 1
            if depth == 0: return j
        j += 1
    raise TranslateError('unbalanced at token %d' % i)

def strip_cfg_test(toks):
    """drop `#[cfg(test)] mod … { … }` blocks"""
    out = []; i = 0
    while i < len(toks):
        if (norm_text(toks[i:i+7]) == '# [ cfg ( test ) ]' and i + 8 < len(toks)
                and toks[i+7][1] == 'mod'):
            j = i + 8
            while toks[j][1] != '{' and toks[j][1] != ';': j += 1
            i = (match_close(toks, j) + 1) if toks[j][1] == '{' else j + 1
            continue
        out.append(toks[i]); i += 1
    return out

class Source:
    def __init__(self, path):
        self.path = path
        with open(path, encoding='utf-8') as f:
            self.text = f.read()
        self.toks = strip_cfg_test(tokenize(self.text))

    def find_fn(self, name, nth=0, within=None):
        """return (sig_tokens, body_tokens) of the nth `fn name` (body excludes braces)."""
        toks = self.toks
        lo, hi = (0, len(toks)) if within is None else within
        k = 0
        for i in range(lo, hi - 1):
            if toks[i] == ('id', 'fn') and toks[i+1] == ('id', name):
                j = i + 2
                while not (toks[j][0] == 'p' and toks[j][1] in '{;'):
                    if toks[j][0] == 'p' and toks[j][1] in '([':
                        j = match_close(toks, j)
                    j += 1
                if toks[j][1] == ';':
                    continue
                e = match_close(toks, j)
                if k == nth:
                    return toks[i:j], toks[j+1:e]
                k += 1
        raise TranslateError('%s: fn %s not found' % (self.path, name))

    def find_block(self, *header):
        """find `header… {` (e.g. 'impl','TextPane','for','Buffer') and return its token range."""
        toks = self.toks
        h = list(header)
        for i in range(len(toks) - len(h)):
            if [t[1] for t in toks[i:i+len(h)]] == h:
                j = i + len(h)
                while toks[j][1] != '{': j += 1
                return (j + 1, match_close(toks, j))
        raise TranslateError('%s: block %s not found' % (self.path, ' '.join(h)))

    def find_const(self, name):
        """return (type_tokens, value_tokens) of `const|static NAME : T = V ;`"""
        toks = self.toks
        for i in range(len(toks) - 2):
            if toks[i][1] in ('const', 'static') and toks[i+1] == ('id', name) and toks[i+2][1] == ':':
                j = i + 3; depth = 0
                while not (toks[j][1] == '=' and depth == 0):
                    if toks[j][1] in '([<': depth += 1
                    if toks[j][1] in ')]>': depth -= 1
                    j += 1
                ty = toks[i+3:j]
                k = j + 1; depth = 0
                while not (toks[k][1] == ';' and depth == 0):
                    if toks[k][0] == 'p' and toks[k][1] in '([{': depth += 1
                    if toks[k][0] == 'p' and toks[k][1] in ')]}': depth -= 1
                    k += 1
                return ty, toks[j+1:k]
        raise TranslateError('%s: const %s not found' % (self.path, name))

def parse_num(t):
    if t[0] == 'num':
        return int(t[1], 0) if not t[1].startswith('0o') else int(t[1][2:], 8)
    if t[0] == 'char':
        s = t[1]
        if s.startswith('b'): s = s[1:]
        s = s[1:-1]
        if s.startswith('\\x'): return int(s[2:], 16)
        if s.startswith('\\u'): return int(s[3:-1], 16)
        if s.startswith('\\'):
            return {'n': 10, 'r': 13, 't': 9, '0': 0, '\\': 92, "'": 39, '"': 34}[s[1]]
        return ord(s)
    raise TranslateError('not a number: %r' % (t,))

def parse_array(toks, env=None):
    """nested array literal of numbers (and named constants via env) -> python nested list"""
    pos = [0]
    def val():
        t = toks[pos[0]]
        if t[1] == '[' and t[0] == 'p':
            pos[0] += 1
            out = []
            while toks[pos[0]][1] != ']':
                out.append(val())
                if toks[pos[0]][1] == ',': pos[0] += 1
                elif toks[pos[0]][1] == ';':   # [v; n]
                    pos[0] += 1
                    cnt = parse_num(toks[pos[0]]); pos[0] += 1
                    out = [out[0]] * cnt
            pos[0] += 1
            return out
        if t[1] == '(' and t[0] == 'p':
            pos[0] += 1
            out = []
            while toks[pos[0]][1] != ')':
                out.append(val())
                if toks[pos[0]][1] == ',': pos[0] += 1
            pos[0] += 1
            return out
        if t[0] in ('num', 'char'):
            pos[0] += 1
            return parse_num(t)
        if t[0] == 'p' and t[1] == '-':
            pos[0] += 1
            return -val()
        if t[0] == 'id' and env is not None and t[1] in env:
            pos[0] += 1
            return env[t[1]]
        raise TranslateError('array literal: unexpected %r' % (t,))
    v = val()
    if pos[0] != len(toks):
        raise TranslateError('array literal: trailing tokens')
    return v

def match_template(template, toks):
    """template: string of Rust tokens with holes `$NAME`; returns {NAME: tokens} or raises.
    A hole matches the shortest balanced token run followed by the next template token."""
    tt = []
    for part in re.split(r'(\$[A-Za-z0-9_]+)', template):
        if part.startswith('$'): tt.append(('hole', part[1:]))
        else: tt.extend(tokenize(part))
    holes = {}
    i = 0
    k = 0
    while k < len(tt):
        t = tt[k]
        if t[0] == 'hole':
            nxt = tt[k+1] if k + 1 < len(tt) else None
            j = i; depth = 0
            while True:
                if j >= len(toks):
                    if nxt is None: break
                    raise TranslateError('template: hole $%s ran off the end' % t[1])
                u = toks[j]
                if depth == 0 and nxt is not None and u == nxt: break
                if u[0] == 'p' and u[1] in '([{': depth += 1
                if u[0] == 'p' and u[1] in ')]}':
                    depth -= 1
                    if depth < 0: raise TranslateError('template: hole $%s unbalanced' % t[1])
                j += 1
            holes[t[1]] = toks[i:j]
            i = j
        else:
            if i >= len(toks) or toks[i] != t:
                got = tok_text(toks[i]) if i < len(toks) else '<end>'
                raise TranslateError('template mismatch at token %d: expected `%s`, source has `%s` (context: %s)'
                                     % (i, tok_text(t), got, norm_text(toks[max(0, i-6):i+6])))
            i += 1
        k += 1
    if i != len(toks):
        raise TranslateError('template: %d trailing source tokens: %s' % (len(toks) - i, norm_text(toks[i:i+8])))
    return holes

# ---------------------------------------------------------------------------
# expression translator (unsigned machine integers -> N)

_WIDTH = {'u8': 8, 'u16': 16, 'u32': 32, 'u64': 64, 'usize': 64}
_BINPREC = [['||'], ['&&'], ['==', '!=', '<', '>', '<=', '>='], ['|'], ['^'], ['&'], ['<<', '>>'],
            ['+', '-'], ['*', '/', '%']]

class Expr:
    def __init__(self, toks, vars, tables):
        """vars: name -> type ('u8'…, or 'list:u8' for byte slices); tables: name -> (dims, elemtype)"""
        self.t = toks; self.i = 0; self.vars = vars; self.tables = tables

    def peek(self):
        return self.t[self.i] if self.i < len(self.t) else ('eof', '')

    def eat(self, s=None):
        t = self.peek()
        if s is not None and t[1] != s:
            raise TranslateError('expr: expected `%s` got `%s`' % (s, t[1]))
        self.i += 1
        return t

    def parse(self):
        e = self.binary(0)
        if self.i != len(self.t):
            raise TranslateError('expr: trailing `%s`' % norm_text(self.t[self.i:]))
        return e

    def binary(self, lvl):
        if lvl == len(_BINPREC):
            return self.cast()
        l = self.binary(lvl + 1)
        while self.peek()[0] == 'p' and self.peek()[1] in _BINPREC[lvl]:
            op = self.eat()[1]
            r = self.binary(lvl + 1)
            l = self.mk_bin(op, l, r)
        return l

    def cast(self):
        e = self.unary()
        while self.peek() == ('id', 'as'):
            self.eat()
            ty = self.eat()[1]
            if ty not in _WIDTH: raise TranslateError('expr: cast to %s unsupported' % ty)
            e = self.mk_cast(e, ty)
        return e

    def unary(self):
        t = self.peek()
        if t == ('p', '!'):
            self.eat()
            c, ty = self.unary()
            if ty is None: raise TranslateError('expr: `!` on untyped literal')
            return ('(N.lxor %s %d)' % (c, (1 << _WIDTH[ty]) - 1), ty)
        if t == ('p', '*') or t == ('p', '&'):
            self.eat()
            return self.unary()
        return self.postfix()

    def postfix(self):
        t = self.eat()
        if t[0] == 'num':
            e = (str(parse_num(t)), t[2] or None)
        elif t[0] == 'char':
            e = (str(parse_num(t)), 'u8' if t[1].startswith('b') else 'u32')
        elif t == ('p', '('):
            j = self.i; depth = 1
            while depth:
                u = self.t[j]
                if u[0] == 'p' and u[1] in '([{': depth += 1
                if u[0] == 'p' and u[1] in ')]}': depth -= 1
                j += 1
            sub = Expr(self.t[self.i:j-1], self.vars, self.tables).parse()
            self.i = j
            e = sub
        elif t[0] == 'id':
            name = t[1]
            if name in self.vars:
                e = (name, self.vars[name])
            elif name in self.tables:
                dims, ety = self.tables[name]
                e = (name, 'tbl%d:%s' % (dims, ety))
            else:
                raise TranslateError('expr: unknown identifier `%s`' % name)
        else:
            raise TranslateError('expr: unexpected `%s`' % t[1])
        while self.peek() == ('p', '['):
            j = self.i; depth = 0
            while True:
                u = self.t[j]
                if u[0] == 'p' and u[1] in '([{': depth += 1
                if u[0] == 'p' and u[1] in ')]}':
                    depth -= 1
                    if depth == 0: break
                j += 1
            idx = Expr(self.t[self.i+1:j], self.vars, self.tables).parse()
            self.i = j + 1
            c, ty = e
            if ty and ty.startswith('tbl2:'):
                e = ('(tget2 %s %s)' % (c, idx[0]), 'tbl1:' + ty[5:])
            elif ty and ty.startswith('tbl1:'):
                e = ('(tget %s %s)' % (c, idx[0]), ty[5:])
            elif ty and ty.startswith('list:'):
                e = ('(tget %s %s)' % (c, idx[0]), ty[5:])
            else:
                raise TranslateError('expr: indexing a non-table `%s`' % c)
        return e

    def mk_cast(self, e, ty):
        c, src = e
        w = _WIDTH[ty]
        if src is None or (src in _WIDTH and _WIDTH[src] <= w):
            return (c, ty)
        return ('(%s mod %d)' % (c, 1 << w), ty)

    def mk_bin(self, op, l, r):
        (lc, lt), (rc, rt) = l, r
        ty = lt or rt
        if op in ('<<', '>>'):
            ty = lt
            if ty is None: raise TranslateError('expr: shift of untyped literal')
            if not re.fullmatch(r'\d+', rc) or int(rc) >= _WIDTH[ty]:
                raise TranslateError('expr: shift amount must be a literal below the width')
            if op == '>>': return ('(N.shiftr %s %s)' % (lc, rc), ty)
            return ('((N.shiftl %s %s) mod %d)' % (lc, rc, 1 << _WIDTH[ty]), ty)
        if lt and rt and lt != rt:
            raise TranslateError('expr: operand types differ: %s vs %s in `%s`' % (lt, rt, op))
        if op == '^': return ('(N.lxor %s %s)' % (lc, rc), ty)
        if op == '&': return ('(N.land %s %s)' % (lc, rc), ty)
        if op == '|': return ('(N.lor %s %s)' % (lc, rc), ty)
        raise TranslateError('expr: operator `%s` outside the translated subset' % op)

def translate_expr(toks, vars, tables):
    return Expr(list(toks), vars, tables).parse()

def coq_list(v):
    if isinstance(v, list):
        return '[' + '; '.join(coq_list(x) for x in v) + ']'
    return str(v)
