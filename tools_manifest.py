#!/usr/bin/env python3
"""Regenerates MANIFEST.json from the property plugins (props/cXX.py) — keeps it valid at all times."""
import json, os, sys, importlib, glob
sys.path.insert(0, os.path.dirname(os.path.abspath(__file__)))
here = os.path.dirname(os.path.abspath(__file__))
props = [json.loads(l) for l in open(os.path.join(here, 'properties.jsonl'))]
checks = []; na = []
hold = json.load(open(os.path.join(here, 'manifest_hold.json'))) if os.path.exists(os.path.join(here, 'manifest_hold.json')) else {}
for p in props:
    pid = p['id']
    path = os.path.join(here, 'props', pid.lower() + '.py')
    if pid in hold:
        na.append({'property_id': pid, 'reason': hold[pid]})
        continue
    if not os.path.exists(path):
        na.append({'property_id': pid, 'reason': 'no check registered yet: the Coq model and theorems for this property are not built at this commit (planned, see DESIGN.md section 7 %s); not claimed' % pid})
        continue
    pl = importlib.import_module('props.' + pid.lower())
    checks.append({
        'property_id': pid,
        'quick_cmd': './check %s --tier quick' % pid,
        'thorough_cmd': './check %s --tier thorough' % pid,
        'evidence_file': 'evidence/%s.json' % pid,
        'replay_cmd_template': './check %s --replay {path}' % pid,
        'engine': 'coq-proofs',
        'level_claimed': {'category': 'proof', 'text': pl.LEVEL_TEXT, 'design_ref': 'DESIGN.md section 7 ' + pid},
        'level_note': pl.LEVEL_NOTE,
        'technique': pl.TECHNIQUE,
    })
m = {
    'version': 1,
    'setup_cmd': './check --setup',
    'hooks': {'guard': 'icy_engine_verif', 'enable': 'RUSTFLAGS="--cfg icy_engine_verif" cargo build --offline (in /verif/harness, path dependency on /repo)',
              'baseline_off_cmd': 'cd /repo && cargo test --workspace --no-fail-fast --offline',
              'source_commits': json.load(open(os.path.join(here, 'hooks.json')))['source_commits'], 'add_only': True},
    'engines': [
        {'name': 'coq-proofs', 'path': 'coq/', 'serves_properties': [c['property_id'] for c in checks],
         'kind_free_text': 'Coq 8.16 development: Gen/ regenerated from /repo by translator/, Model/ executable Gallina, Proofs/ lemmas, Props/ the property theorems'},
        {'name': 'translator', 'path': 'translator/', 'serves_properties': [c['property_id'] for c in checks],
         'kind_free_text': 'python: Rust tokenizer, template matcher and integer-expression translator producing coq/Gen/*.v on every run'},
        {'name': 'rust-harness', 'path': 'harness/', 'serves_properties': [c['property_id'] for c in checks],
         'kind_free_text': 'worker binary running the real icy_engine on generated cases for the correspondence and failing-input search stages'},
    ],
    'checks': checks,
    'notes': 'Every check runs stages G (regenerate model parts from source), P (make the .vo closure + Print Assumptions audit), B (cargo build of the harness against /repo with the hook cfg), C (model-vs-implementation differential), S (oracle search for a failing input). See DESIGN.md section 2.',
    'not_applicable': na,
}
json.dump(m, open(os.path.join(here, 'MANIFEST.json'), 'w'), indent=1)
print('MANIFEST.json: %d checks, %d not claimed' % (len(checks), len(na)))
