#!/usr/bin/env python3
"""tools_remap.py CXX fix-branch: after cherry-picking an agent's fix commits into /repo main, rewrite the commit ids in known_findings.d/CXX.json"""
import json, subprocess, sys
pid, branch = sys.argv[1], sys.argv[2]
p = 'known_findings.d/%s.json' % pid
d = json.load(open(p))
log = subprocess.check_output(['git', '-C', '/repo', 'log', '--format=%h %s', '-60', 'main']).decode().splitlines()
bysubj = {l.split(' ', 1)[1]: l.split(' ', 1)[0] for l in log}
old = subprocess.check_output(['git', '-C', '/repo', 'log', '--format=%h %s', 'main..' + branch]).decode().splitlines()
m = {}
for l in old:
    h, sj = l.split(' ', 1)
    if sj in bysubj: m[h] = bysubj[sj]
for e in d:
    c = e.get('commit')
    if c:
        for o, n in m.items():
            if c.startswith(o) or o.startswith(c[:7]): e['commit'] = n
json.dump(d, open(p, 'w'), indent=1)
print(pid, [(e['signature'], e.get('commit')) for e in d])
