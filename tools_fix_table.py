#!/usr/bin/env python3
"""Rewrites the fix-commit table of DESIGN.md (between FIX-TABLE markers) from /repo's git log and known_findings.d."""
import subprocess, json, glob, re
log = subprocess.check_output(['git', '-C', '/repo', 'log', '--reverse', '--format=%h\t%s', 'cdb5b60..main']).decode().splitlines()
prop = {}
for f in glob.glob('known_findings.d/*.json') + ['known_findings.json']:
    for e in json.load(open(f)):
        if e.get('commit'): prop.setdefault(e['commit'][:7], set()).add(e['property'])
rows = []
for l in log:
    h, s = l.split('\t', 1)
    kind = 'hook' if s.startswith('verif hook') else ('fix' if s.startswith('fix:') else 'other')
    rows.append('| %s | %s | %s |' % (h, ','.join(sorted(prop.get(h[:7], []))) or ('(hook)' if kind == 'hook' else ''), s.replace('|', '/')[:160]))
table = '<!-- FIX-TABLE-BEGIN -->\n| commit | property | subject |\n|---|---|---|\n' + '\n'.join(rows) + '\n<!-- FIX-TABLE-END -->'
s = open('DESIGN.md').read()
if 'FIX-TABLE-BEGIN' in s:
    s = re.sub(r'<!-- FIX-TABLE-BEGIN -->.*<!-- FIX-TABLE-END -->', lambda _: table, s, flags=re.S)
else:
    s = re.sub(r'(### 12\.3 Fix commits in /repo so far\n\n)\| commit \| property \| what \|\n\|---\|---\|---\|\n(\|.*\n)*', lambda m: m.group(1) + table + '\n', s)
open('DESIGN.md', 'w').write(s)
print(len(rows), 'commits')
