#!/bin/bash
# tools_seed_validate.sh <ID> <srcdir> <name>: confirm a seeded change in a scratch worktree of /repo
#  (applies cleanly at /repo main, builds, 227 tests pass, demo fails with / passes without), then run ./check <ID>
#  against /repo with the patch applied and undo it. On success the change is stored under /verif/seeded/<name>/.
set -u
ID=$1; SRC=$2; NAME=$3
WT=/tmp/seedval-$NAME
export CARGO_NET_OFFLINE=true CARGO_TARGET_DIR=/tmp/seedval-target
git -C /repo worktree add -q --detach $WT main || exit 2
cd $WT
res() { echo "RESULT $NAME: $*"; cd /; git -C /repo worktree remove --force $WT; exit 0; }
git apply --check $SRC/patch.diff || res "patch does not apply at main"
mkdir -p tests; cp $SRC/demo.rs tests/seed_demo.rs
base=$(cargo test --offline --test seed_demo 2>&1 | grep "test result" | tail -1)
git apply $SRC/patch.diff
suite=$(cargo test --offline --lib 2>&1 | grep "test result" | tail -1)
with=$(cargo test --offline --test seed_demo 2>&1 | grep "test result" | tail -1)
echo "demo without patch: $base"; echo "suite with patch:  $suite"; echo "demo with patch:    $with"
ok=1
echo "$base" | grep -q "test result: ok" || ok=0
echo "$suite" | grep -q "227 passed; 52 failed" || ok=0
echo "$with" | grep -q "FAILED" || ok=0
cd /; git -C /repo worktree remove --force $WT
[ $ok = 1 ] || { echo "RESULT $NAME: not confirmed"; exit 0; }
cd /verif; unset CARGO_TARGET_DIR
git -C /repo apply $SRC/patch.diff
out=$(./check $ID 2>&1 | tail -4)
git -C /repo checkout -- .
echo "$out"
./check $ID > /dev/null 2>&1   # evidence must describe a run on the clean tree
rm -f replays/$ID-*.json
mkdir -p seeded/$NAME; cp $SRC/patch.diff $SRC/demo.rs seeded/$NAME/
python3 - "$SRC/meta.json" "seeded/$NAME/meta.json" "$base" "$suite" "$with" "$out" <<'PY'
import json,sys
m=json.load(open(sys.argv[1]))
m['confirmed']={'demo_without_patch':sys.argv[3],'suite_with_patch':sys.argv[4],'demo_with_patch':sys.argv[5]}
m['check_output']=sys.argv[6].splitlines()
m['detected']=('VIOLATION' in sys.argv[6])
json.dump(m,open(sys.argv[2],'w'),indent=1)
PY
echo "RESULT $NAME: confirmed, detected=$(echo "$out" | grep -c VIOLATION)"
