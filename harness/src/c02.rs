//! C02: every loader on arbitrary bytes (see props/c02.py).
//!
//! Kinds (byte strings travel as hex, `-` = empty)
//!   c2load <ext> <hex>     `Buffer::from_bytes("verif.<ext>", bytes)`; ext `-` = a path without extension.
//!                          [0] = Err(..);  [1, w, h, layers, ice, pal_len, fonts, cells, s1, s2, s3] = Ok(buffer) with a
//!                          position-weighted digest of `Buffer::get_char` over the picture (cells = -2, sums 0 when the
//!                          picture is larger than 2 000 000 cells or has a negative size)
//!   c2text <ext> <hex>     `Buffer::from_bytes` for the text loaders, observed as Run/RunC02Text.v prints its model:
//!                          [0] = Err(..);  [1, bw, bh, tw, th, lw, lh, nlines, nlayers, d1, d2, -7, row lengths.., -9, (w h) of every
//!                          further layer, -10, font-0 w h, then per further layer: offset x y, pixel size of its sixel]
//!                          d1 / d2 = position-weighted sums of (code + 1) / (background != 0) over the cells of layer 0
//!   c2sauce <hex>          `SauceData::extract`: [0] Err, [1] Ok(None), [2, header_len, w, h, ice] Ok(Some)
//!   c2font <hex>           `BitFont::from_bytes`: [0] | [1, w, h, length]
//!   c2tdf <hex>            `TheDrawFont::from_tdf_bytes`: [0] | [1, nfonts]
//!   c2pal <fmt 0..5> <hex> `Palette::load_palette` (Ice, Hex, Pal, Gpl, Txt, Ase): [0] | [1, n, sum r, sum g, sum b]
//!   c2palx <fmt 0..5> <n>  `Palette::export_palette` of an n-colour palette: [len]
//!   c2mk <ext> <w> <h> <seed> <sauce 0|1> <compress 0|1> <style>   a picture computed from the seed, saved by the
//!                          engine's own writer: [0] when saving fails, else [1, bytes…]
//!                          style 0: 8-bit characters, 16 colours; 1: printable ASCII only; 2: with runs
use crate::util::unhex;
use crate::Obs;
use icy_engine::{
    AttributedChar, BitFont, Buffer, Color, IceMode, Palette, PaletteFormat, SauceData, SauceString, SaveOptions, TextAttribute, TextPane, TheDrawFont,
};
use std::path::PathBuf;

fn mix(seed: u32, i: u32) -> u32 {
    let mut x = seed ^ i.wrapping_mul(0x9E37_79B1);
    x ^= x >> 16;
    x = x.wrapping_mul(0x85EB_CA6B);
    x ^= x >> 13;
    x = x.wrapping_mul(0xC2B2_AE35);
    x ^= x >> 16;
    x
}

fn pal_format(i: &str) -> PaletteFormat {
    match i {
        "0" => PaletteFormat::Ice,
        "1" => PaletteFormat::Hex,
        "2" => PaletteFormat::Pal,
        "3" => PaletteFormat::Gpl,
        "4" => PaletteFormat::Txt,
        _ => PaletteFormat::Ase,
    }
}

fn digest(buf: &Buffer) -> Vec<i64> {
    let (w, h) = (buf.get_width(), buf.get_height());
    let mut v = vec![
        1,
        w as i64,
        h as i64,
        buf.layers.len() as i64,
        buf.ice_mode.to_byte() as i64,
        buf.palette.len() as i64,
        buf.font_iter().count() as i64,
    ];
    if w < 0 || h < 0 || (w as i64) * (h as i64) > 2_000_000 {
        v.extend([-2, 0, 0, 0]);
        return v;
    }
    // Buffer::get_char subtracts the layer offset: a loaded layer offset of i32::MIN overflows there. That is after the
    // load returned (not a loader failure): reported as cells = -3.
    let sums = std::panic::catch_unwind(std::panic::AssertUnwindSafe(|| cell_sums(buf, w, h)));
    match sums {
        Ok((s1, s2, s3)) => v.extend([(w as i64) * (h as i64), s1, s2, s3]),
        Err(_) => v.extend([-3, 0, 0, 0]),
    }
    v
}

fn cell_sums(buf: &Buffer, w: i32, h: i32) -> (i64, i64, i64) {
    let m: i64 = 1_000_000_007;
    let (mut s1, mut s2, mut s3, mut i) = (0i64, 0i64, 0i64, 1i64);
    for y in 0..h {
        for x in 0..w {
            let c = buf.get_char((x, y));
            for val in [
                c.ch as i64,
                c.attribute.get_foreground() as i64,
                c.attribute.get_background() as i64,
                c.attribute.attr as i64,
                c.get_font_page() as i64,
            ] {
                let val = val % m;
                s1 = (s1 + val) % m;
                s2 = (s2 + (i % m) * val) % m;
                s3 = (s3 + ((i % m) * (i % m) % m) * val) % m;
                i += 1;
            }
        }
    }
    (s1, s2, s3)
}

fn text_obs(buf: &Buffer) -> Vec<i64> {
    let l = &buf.layers[0];
    let ts = &buf.terminal_state;
    let m: i64 = 1_000_003;
    let (mut d1, mut d2, mut k) = (0i64, 0i64, 1i64);
    for ln in &l.lines {
        for c in &ln.chars {
            d1 = (d1 + (k % m) * ((c.ch as i64 + 1) % m)) % m;
            d2 = (d2 + (k % m) * (if c.attribute.get_background() != 0 { 1 } else { 0 })) % m;
            k += 1;
        }
    }
    let mut v = vec![
        1,
        buf.get_width() as i64,
        buf.get_height() as i64,
        ts.get_width() as i64,
        ts.get_height() as i64,
        l.get_width() as i64,
        l.get_height() as i64,
        l.lines.len() as i64,
        buf.layers.len() as i64,
        d1,
        d2,
        -7,
    ];
    v.extend(l.lines.iter().map(|ln| ln.chars.len() as i64));
    v.push(-9);
    for x in buf.layers.iter().skip(1) {
        v.push(x.get_width() as i64);
        v.push(x.get_height() as i64);
    }
    v.push(-10);
    let f = buf.get_font_dimensions();
    v.push(f.width as i64);
    v.push(f.height as i64);
    for x in buf.layers.iter().skip(1) {
        let o = x.get_offset();
        v.push(o.x as i64);
        v.push(o.y as i64);
        let sz = x.sixels.first().map(|s| s.get_size()).unwrap_or_default();
        v.push(sz.width as i64);
        v.push(sz.height as i64);
    }
    v
}

fn make(args: &[&str]) -> Vec<i64> {
    let ext = args[0];
    let (w, h): (i32, i32) = (args[1].parse().unwrap(), args[2].parse().unwrap());
    let seed: u32 = args[3].parse().unwrap();
    let mut opt = SaveOptions::new();
    opt.save_sauce = args[4] == "1";
    opt.compress = args[5] == "1";
    opt.lossles_output = true;
    let style: u32 = args[6].parse().unwrap();
    let mut buf = Buffer::new((w, h));
    buf.ice_mode = if seed & 1 == 0 { IceMode::Ice } else { IceMode::Blink };
    if ext == "ata" {
        buf.buffer_type = icy_engine::BufferType::Atascii;
    }
    if opt.save_sauce {
        let mut s = SauceData::default();
        s.title = SauceString::from("verif title");
        s.author = SauceString::from("c02");
        if seed & 2 != 0 {
            s.comments.push(SauceString::from("first comment"));
            s.comments.push(SauceString::from("second comment"));
        }
        s.use_ice = seed & 1 == 0;
        buf.set_sauce(Some(s), false);
        buf.set_size((w, h));
    }
    let mut i = 0u32;
    for y in 0..h {
        for x in 0..w {
            let a = mix(seed, i);
            let ch = match style {
                0 => a & 255,
                1 => 33 + (a % 94),
                _ => {
                    if a & 7 == 0 {
                        (a >> 8) & 255
                    } else {
                        65 + (i / 6 % 3)
                    }
                }
            };
            let (fg, bg) = if style == 2 { ((i / 9) % 16, (i / 14) % 8) } else { ((a >> 8) % 16, (a >> 20) % 8) };
            let mut at = TextAttribute::new(fg, bg);
            if style == 0 && a >> 28 == 3 {
                at.set_is_blinking(true);
            }
            // style 3: art-like rows (content on the left, trailing default blanks, blank last row): the writers'
            // run-length / trimming paths end the data with repeat records
            let (ch, at) = if style == 3 && (x > w / 3 + (y * 7) % (w / 2 + 1) || y + 1 == h && h > 1) {
                (32, TextAttribute::default())
            } else {
                (ch, at)
            };
            buf.layers[0].set_char((x, y), AttributedChar::new(char::from_u32(ch).unwrap(), at));
            i += 1;
        }
    }
    match buf.to_bytes(ext, &opt) {
        Ok(b) => {
            let mut v = vec![1];
            v.extend(b.iter().map(|x| *x as i64));
            v
        }
        Err(_) => vec![0],
    }
}

pub fn run(kind: &str, args: &[&str]) -> Option<Obs> {
    let v = match kind {
        "c2load" => {
            let name = if args[0] == "-" { PathBuf::from("verif") } else { PathBuf::from(format!("verif.{}", args[0])) };
            match Buffer::from_bytes(&name, true, &unhex(args[1])) {
                Ok(b) => digest(&b),
                Err(_) => vec![0],
            }
        }
        "c2text" => match Buffer::from_bytes(&PathBuf::from(format!("verif.{}", args[0])), true, &unhex(args[1])) {
            Ok(b) => text_obs(&b),
            Err(_) => vec![0],
        },
        "c2sauce" => match SauceData::extract(&unhex(args[0])) {
            Err(_) => vec![0],
            Ok(None) => vec![1],
            Ok(Some(s)) => vec![2, s.sauce_header_len as i64, s.buffer_size.width as i64, s.buffer_size.height as i64, s.use_ice as i64],
        },
        "c2font" => match BitFont::from_bytes("verif", &unhex(args[0])) {
            Err(_) => vec![0],
            Ok(f) => vec![1, f.size.width as i64, f.size.height as i64, f.length as i64],
        },
        "c2tdf" => match TheDrawFont::from_tdf_bytes(&unhex(args[0])) {
            Err(_) => vec![0],
            Ok(f) => vec![1, f.len() as i64],
        },
        "c2pal" => match Palette::load_palette(&pal_format(args[0]), &unhex(args[1])) {
            Err(_) => vec![0],
            Ok(p) => {
                let (mut r, mut g, mut b) = (0i64, 0i64, 0i64);
                for i in 0..p.len() {
                    let (x, y, z) = p.get_rgb(i as u32);
                    r += x as i64 * (i as i64 + 1);
                    g += y as i64 * (i as i64 + 1);
                    b += z as i64 * (i as i64 + 1);
                }
                vec![1, p.len() as i64, r, g, b]
            }
        },
        "c2palx" => {
            let n: u32 = args[1].parse().unwrap();
            let cols: Vec<Color> = (0..n).map(|i| Color::new((i * 7) as u8, (i * 13) as u8, (i * 29) as u8)).collect();
            let p = Palette::from_slice(&cols);
            vec![p.export_palette(&pal_format(args[0])).len() as i64]
        }
        "c2mk" => make(args),
        _ => return None,
    };
    Some(Ok(v))
}
