//! C19: CRC routines of src/crc.rs through the public API.
use crate::util::unhex;
use crate::Obs;
use icy_engine::{get_crc16, get_crc32, update_crc16, update_crc32};

pub fn run(kind: &str, args: &[&str]) -> Option<Obs> {
    Some(match kind {
        // all four observations of one byte string
        "crc" => {
            let b = unhex(args[0]);
            let mut c16 = 0u16;
            let mut c32 = 0xFFFF_FFFFu32;
            for x in &b {
                c16 = update_crc16(c16, *x);
                c32 = update_crc32(c32, *x);
            }
            Ok(vec![get_crc16(&b) as i64, get_crc32(&b) as i64, c16 as i64, (!c32) as i64])
        }
        // single update steps from an arbitrary state
        "upd" => {
            let c: u32 = args[0].parse().unwrap();
            let b: u8 = args[1].parse().unwrap();
            Ok(vec![update_crc16(c as u16, b) as i64, update_crc32(c, b) as i64])
        }
        // exhaustive sweep of update_crc16 against the bitwise definition: count mismatches, first one
        "sweep16" => {
            let mut bad = 0i64;
            let mut first = -1i64;
            for c in 0..=0xFFFFu32 {
                for b in 0..=255u32 {
                    let mut r = (c as u16) ^ ((b as u16) << 8);
                    for _ in 0..8 {
                        r = if r & 0x8000 != 0 { (r << 1) ^ 0x1021 } else { r << 1 };
                    }
                    if update_crc16(c as u16, b as u8) != r {
                        bad += 1;
                        if first < 0 {
                            first = ((c << 8) | b) as i64;
                        }
                    }
                }
            }
            Ok(vec![bad, first])
        }
        _ => return None,
    })
}
