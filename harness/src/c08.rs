//! C08: undo / redo over edit histories on the real `EditState` (see props/c08.py, notes/C08.md).
//!
//! Case text:  `<kind> <doc spec tokens> | <op> ; <op> ; …`
//!
//! doc spec   `B w h ice palmode fontmode sauce`            buffer (sauce: 0 none, 1 matching size, 2 other size)
//!            `L w h ox oy flags mode fill seed`            one per layer, bottom first (flags: 1 visible 2 locked
//!                                                          4 position-locked 8 alpha-locked 16 has-alpha)
//!                 fill 0 no lines, 1 Layer::new rows, 2 random cells, 3 ragged rows, 4 random cells + content beyond size
//!            `X w h ox oy flags mode nrows (len cell*)*`   layer with explicit raw rows (cells in the 57-bit code below)
//!            `P cur mirror cx cy`                          current layer, mirror mode, caret
//! ops        see `apply`; `U` / `R` are undo / redo (only for c08trace); `caret x y`, `cur i`, `mirror b` are controls.
//!
//! kinds      c08hist  <walk seed> …   the property's oracle on the real code (stage S). Output:
//!                 `0 n_kept n_steps` or `code phase step n_min min-op-indices… detail-codes…`
//!            c08trace …               stage C: after every step the raw document (see `raw_obs`)
//!            c08flip                  the flip-x / flip-y character maps of the default font (probe through the public API)
use crate::Obs;
use icy_engine::editor::{EditState, UndoState};
use icy_engine::{
    AddType, AttributedChar, BitFont, Buffer, Color, FontMode, IceMode, Layer, Line, Mode, Palette, PaletteMode, Position, Rectangle, SauceData, SauceString,
    Selection, Size, TextAttribute, TextPane,
};
use std::collections::BTreeMap;
use std::panic::{catch_unwind, AssertUnwindSafe};

// ---------------------------------------------------------------------------------------------
// cells

fn enc_cell(c: AttributedChar) -> i64 {
    (c.ch as i64)
        | ((c.attribute.get_foreground() as i64 & 0xFF) << 21)
        | ((c.attribute.get_background() as i64 & 0xFF) << 29)
        | ((c.attribute.get_font_page() as i64 & 0xF) << 37)
        | ((c.attribute.attr as i64) << 41)
}

fn dec_cell(v: i64) -> AttributedChar {
    let ch = char::from_u32((v & 0x1F_FFFF) as u32).unwrap_or('?');
    let mut a = TextAttribute::new(((v >> 21) & 0xFF) as u32, ((v >> 29) & 0xFF) as u32);
    a.set_font_page(((v >> 37) & 0xF) as usize);
    a.attr = ((v >> 41) & 0xFFFF) as u16;
    AttributedChar::new(ch, a)
}

fn mk_cell(ch: u32, fg: u32, bg: u32, attr: u16, fp: usize) -> AttributedChar {
    let mut a = TextAttribute::new(fg, bg);
    a.attr = attr;
    a.set_font_page(fp);
    AttributedChar::new(char::from_u32(ch).unwrap_or('?'), a)
}

struct Lcg(u64);
impl Lcg {
    fn next(&mut self) -> u64 {
        self.0 = self.0.wrapping_mul(6364136223846793005).wrapping_add(1442695040888963407);
        (self.0 >> 33) as u64
    }
    fn below(&mut self, n: u64) -> u64 {
        self.next() % n
    }
}

const CHARS: &[u32] = &[65, 66, 67, 68, 77, 81, 88, 90, 112, 113, 47, 92, 32, 32, 0, 219, 220, 223, 221, 222, 179, 196, 218, 191, 192, 217, 48, 57];

fn rand_cell(r: &mut Lcg) -> AttributedChar {
    let k = r.below(10);
    if k < 4 {
        return AttributedChar::invisible();
    }
    let ch = CHARS[r.below(CHARS.len() as u64) as usize];
    let fg = r.below(16) as u32;
    let bg = if r.below(4) == 0 { 0 } else { r.below(8) as u32 };
    let attr = if r.below(5) == 0 { 1 } else { 0 };
    mk_cell(ch, fg, bg, attr, 0)
}

// ---------------------------------------------------------------------------------------------
// documents
#[derive(Clone, Debug)]
struct LayerSpec {
    w: i32,
    h: i32,
    ox: i32,
    oy: i32,
    flags: i64,
    mode: i64,
    fill: i64,
    seed: u64,
    rows: Vec<Vec<i64>>,
}

#[derive(Clone, Debug, Default)]
struct DocSpec {
    w: i32,
    h: i32,
    ice: i64,
    pm: i64,
    fm: i64,
    sauce: i64,
    layers: Vec<LayerSpec>,
    cur: usize,
    mirror: bool,
    caret: (i32, i32),
    fonts: Vec<(usize, usize)>, // extra font slots: (slot, ansi font page)
    cfp: usize,                 // caret font page
}

#[derive(Clone, Debug)]
struct Op {
    name: String,
    a: Vec<i64>,
}

fn parse(args: &[&str]) -> Result<(DocSpec, Vec<Op>), String> {
    let mut d = DocSpec { w: 80, h: 25, ice: 0, pm: 1, fm: 0, ..Default::default() };
    let mut i = 0;
    let int = |s: &str| -> Result<i64, String> { s.parse::<i64>().map_err(|_| format!("bad-int:{s}")) };
    while i < args.len() && args[i] != "|" {
        match args[i] {
            "B" => {
                d.w = int(args[i + 1])? as i32;
                d.h = int(args[i + 2])? as i32;
                d.ice = int(args[i + 3])?;
                d.pm = int(args[i + 4])?;
                d.fm = int(args[i + 5])?;
                d.sauce = int(args[i + 6])?;
                i += 7;
            }
            "L" => {
                d.layers.push(LayerSpec {
                    w: int(args[i + 1])? as i32,
                    h: int(args[i + 2])? as i32,
                    ox: int(args[i + 3])? as i32,
                    oy: int(args[i + 4])? as i32,
                    flags: int(args[i + 5])?,
                    mode: int(args[i + 6])?,
                    fill: int(args[i + 7])?,
                    seed: int(args[i + 8])? as u64,
                    rows: Vec::new(),
                });
                i += 9;
            }
            "X" => {
                let mut l = LayerSpec {
                    w: int(args[i + 1])? as i32,
                    h: int(args[i + 2])? as i32,
                    ox: int(args[i + 3])? as i32,
                    oy: int(args[i + 4])? as i32,
                    flags: int(args[i + 5])?,
                    mode: int(args[i + 6])?,
                    fill: 9,
                    seed: 0,
                    rows: Vec::new(),
                };
                let n = int(args[i + 7])? as usize;
                i += 8;
                for _ in 0..n {
                    let len = int(args[i])? as usize;
                    i += 1;
                    let mut row = Vec::new();
                    for _ in 0..len {
                        row.push(int(args[i])?);
                        i += 1;
                    }
                    l.rows.push(row);
                }
                d.layers.push(l);
            }
            "F" => {
                d.fonts.push((int(args[i + 1])? as usize, int(args[i + 2])? as usize));
                i += 3;
            }
            "C" => {
                d.cfp = int(args[i + 1])? as usize;
                i += 2;
            }
            "P" => {
                d.cur = int(args[i + 1])? as usize;
                d.mirror = int(args[i + 2])? != 0;
                d.caret = (int(args[i + 3])? as i32, int(args[i + 4])? as i32);
                i += 5;
            }
            t => return Err(format!("bad-doc-token:{t}")),
        }
    }
    let mut ops = Vec::new();
    if i < args.len() {
        i += 1;
        let mut cur: Option<Op> = None;
        while i < args.len() {
            if args[i] == ";" {
                if let Some(o) = cur.take() {
                    ops.push(o);
                }
            } else if let Some(o) = cur.as_mut() {
                o.a.push(int(args[i])?);
            } else {
                cur = Some(Op { name: args[i].to_string(), a: Vec::new() });
            }
            i += 1;
        }
        if let Some(o) = cur.take() {
            ops.push(o);
        }
    }
    Ok((d, ops))
}

fn build_layer(k: usize, s: &LayerSpec) -> Layer {
    let mut l = Layer::new(format!("L{k}"), (s.w.max(0), s.h.max(0)));
    l.set_size((s.w, s.h));
    l.set_offset((s.ox, s.oy));
    l.properties.is_visible = s.flags & 1 != 0;
    l.properties.is_locked = s.flags & 2 != 0;
    l.properties.is_position_locked = s.flags & 4 != 0;
    l.properties.is_alpha_channel_locked = s.flags & 8 != 0;
    l.properties.has_alpha_channel = s.flags & 16 != 0;
    l.properties.mode = match s.mode {
        1 => Mode::Chars,
        2 => Mode::Attributes,
        _ => Mode::Normal,
    };
    let mut r = Lcg(s.seed.wrapping_mul(2654435761).wrapping_add(k as u64 + 17));
    match s.fill {
        0 => l.lines.clear(),
        1 => {}
        2 | 4 => {
            let (ew, eh) = if s.fill == 4 { (s.w + 2, s.h + 1) } else { (s.w, s.h) };
            l.lines.clear();
            for _ in 0..eh.max(0) {
                let mut line = Line::new();
                for _ in 0..ew.max(0) {
                    line.chars.push(rand_cell(&mut r));
                }
                l.lines.push(line);
            }
        }
        3 => {
            l.lines.clear();
            let rows = r.below(s.h.max(0) as u64 + 1);
            for _ in 0..rows {
                let mut line = Line::new();
                let len = r.below(s.w.max(0) as u64 + 1);
                for _ in 0..len {
                    line.chars.push(rand_cell(&mut r));
                }
                l.lines.push(line);
            }
        }
        _ => {
            l.lines.clear();
            for row in &s.rows {
                let mut line = Line::new();
                for c in row {
                    line.chars.push(dec_cell(*c));
                }
                l.lines.push(line);
            }
        }
    }
    l
}

fn build(d: &DocSpec) -> EditState {
    let mut buf = Buffer::new((d.w, d.h));
    buf.ice_mode = match d.ice {
        1 => IceMode::Blink,
        2 => IceMode::Ice,
        _ => IceMode::Unlimited,
    };
    buf.palette_mode = match d.pm {
        0 => PaletteMode::RGB,
        2 => PaletteMode::Free8,
        3 => PaletteMode::Free16,
        _ => PaletteMode::Fixed16,
    };
    buf.font_mode = match d.fm {
        1 => FontMode::Single,
        2 => FontMode::FixedSize,
        3 => FontMode::Unlimited,
        _ => FontMode::Sauce,
    };
    if !d.layers.is_empty() {
        buf.layers.clear();
        for (k, s) in d.layers.iter().enumerate() {
            buf.layers.push(build_layer(k, s));
        }
    }
    if d.sauce != 0 {
        let mut s = SauceData::default();
        s.title = SauceString::from("title");
        s.author = SauceString::from("author");
        s.group = SauceString::from("group");
        s.comments.push(SauceString::from("a comment"));
        s.buffer_size = if d.sauce == 1 { Size::new(d.w, d.h) } else { Size::new(d.w + 3, d.h + 1) };
        s.use_ice = d.ice == 2;
        // set_sauce(.., false): store as is
        buf.set_sauce(Some(s), false);
    }
    for (slot, page) in &d.fonts {
        if let Ok(f) = BitFont::from_ansi_font_page(*page) {
            buf.set_font(*slot, f);
        }
    }
    let mut st = EditState::from_buffer(buf);
    st.set_current_layer(d.cur);
    st.set_mirror_mode(d.mirror);
    st.get_caret_mut().set_position(Position::new(d.caret.0, d.caret.1));
    if d.cfp != 0 {
        st.get_caret_mut().set_font_page(d.cfp);
    }
    st
}

/// the SAUCE records of the `sauce k w h` operation (k >= 1); k = 0 in the probe is the record `build` stores
fn sauce_variant(k: i64, w: i32, h: i32) -> SauceData {
    let mut s = SauceData::default();
    if k == 0 {
        s.title = SauceString::from("title");
        s.author = SauceString::from("author");
        s.group = SauceString::from("group");
        s.comments.push(SauceString::from("a comment"));
    } else {
        s.title = SauceString::from(format!("t{k}").as_str());
        s.author = SauceString::from("someone");
        if k >= 2 {
            s.comments.push(SauceString::from("c1"));
            s.use_letter_spacing = true;
        }
        if k >= 3 {
            s.use_ice = true;
        }
    }
    s.buffer_size = Size::new(w, h);
    s
}

/// everything of a SAUCE record but its buffer size, as one number
fn sauce_rest(s: &SauceData) -> i64 {
    let t = format!(
        "{}|{}|{}|{:?}|{:?}|{:?}|{}|{}|{}|{:?}",
        s.title,
        s.author,
        s.group,
        s.comments.iter().map(|c| c.to_string()).collect::<Vec<_>>(),
        s.data_type.clone() as u8,
        s.font_opt,
        s.use_ice,
        s.use_letter_spacing,
        s.use_aspect_ratio,
        s.sauce_file_type
    );
    let mut h = 0xcbf29ce484222325u64;
    fnv(&mut h, t.as_bytes());
    (h & 0x3FFF_FFFF) as i64
}

/// a font as a small number: 1 + k for the font of ANSI font page k, 100 + i for SAUCE font i of the probe, 999 otherwise
fn font_id(f: &BitFont) -> i64 {
    use std::sync::OnceLock;
    static TABLE: OnceLock<Vec<(u64, i64)>> = OnceLock::new();
    let t = TABLE.get_or_init(|| {
        let mut v = Vec::new();
        for k in 0..64usize {
            if let Ok(f) = BitFont::from_ansi_font_page(k) {
                v.push((font_hash(&f), 1 + k as i64));
            }
        }
        for (i, n) in SAUCE_NAMES.iter().enumerate() {
            if let Ok(f) = BitFont::from_sauce_name(n) {
                v.push((font_hash(&f), 100 + i as i64));
            }
        }
        v
    });
    let h = font_hash(f);
    t.iter().find(|(x, _)| *x == h).map(|(_, id)| *id).unwrap_or(999)
}

const SAUCE_NAMES: &[&str] = &["IBM VGA", "IBM VGA50"];

// ---------------------------------------------------------------------------------------------
// operations
fn clipboard(x: i32, y: i32, w: u32, h: u32, seed: u64) -> Vec<u8> {
    let mut data = vec![0u8];
    data.extend(i32::to_le_bytes(x));
    data.extend(i32::to_le_bytes(y));
    data.extend(u32::to_le_bytes(w));
    data.extend(u32::to_le_bytes(h));
    let mut r = Lcg(seed ^ 0x9E3779B97F4A7C15);
    for _ in 0..(w * h) {
        let c = rand_cell(&mut r);
        data.extend(u16::to_le_bytes(c.ch as u16));
        data.extend(u16::to_le_bytes(c.attribute.attr));
        data.extend(u16::to_le_bytes(c.attribute.get_font_page() as u16));
        data.extend(u32::to_le_bytes(c.attribute.get_background()));
        data.extend(u32::to_le_bytes(c.attribute.get_foreground()));
    }
    data
}

/// true for the tokens that only set a parameter of later operations (not an edit, never on the undo stack)
fn is_control(name: &str) -> bool {
    matches!(name, "caret" | "cur" | "mirror")
}

fn apply(st: &mut EditState, op: &Op) -> Result<(), String> {
    let a = |i: usize| -> i64 { op.a.get(i).copied().unwrap_or(0) };
    let ai = |i: usize| -> i32 { a(i) as i32 };
    let au = |i: usize| -> usize { a(i).max(0) as usize };
    let r = match op.name.as_str() {
        "caret" => {
            st.get_caret_mut().set_position(Position::new(ai(0), ai(1)));
            Ok(())
        }
        "cur" => {
            st.set_current_layer(au(0));
            Ok(())
        }
        "mirror" => {
            st.set_mirror_mode(a(0) != 0);
            Ok(())
        }
        "setc" => st.set_char((ai(0), ai(1)), mk_cell(a(2) as u32, a(3) as u32, a(4) as u32, a(5) as u16, au(6))),
        "swap" => st.swap_char((ai(0), ai(1)), (ai(2), ai(3))),
        "addl" => st.add_new_layer(au(0)),
        "reml" => st.remove_layer(au(0)),
        "raise" => st.raise_layer(au(0)),
        "lower" => st.lower_layer(au(0)),
        "dup" => st.duplicate_layer(au(0)),
        "clearl" => st.clear_layer(au(0)),
        "merge" => st.merge_layer_down(au(0)),
        "togvis" => st.toggle_layer_visibility(au(0)),
        "movel" => st.move_layer(Position::new(ai(0), ai(1))),
        "lsize" => st.set_layer_size(au(0), (ai(1), ai(2))),
        "resize" => st.resize_buffer(a(0) != 0, (ai(1), ai(2))),
        "crop" => st.crop(),
        "croprect" => st.crop_rect(Rectangle::from(ai(0), ai(1), ai(2), ai(3))),
        "sel" => {
            let mut s = Selection::from((ai(0), ai(1), ai(2), ai(3)));
            s.add_type = match a(4) {
                1 => AddType::Add,
                2 => AddType::Subtract,
                _ => AddType::Default,
            };
            st.set_selection(s)
        }
        "clrsel" => st.clear_selection(),
        "desel" => st.deselect(),
        "addmask" => st.add_selection_to_mask(),
        "inverse" => st.inverse_selection(),
        "erase" => st.erase_selection(),
        "flipx" => st.flip_x(),
        "flipy" => st.flip_y(),
        "jleft" => st.justify_left(),
        "jright" => st.justify_right(),
        "center" => st.center(),
        "insrow" => st.insert_row(),
        "delrow" => st.delete_row(),
        "inscol" => st.insert_column(),
        "delcol" => st.delete_column(),
        "scrup" => st.scroll_area_up(),
        "scrdown" => st.scroll_area_down(),
        "scrleft" => st.scroll_area_left(),
        "scrright" => st.scroll_area_right(),
        "rotate" => st.rotate_layer(),
        "transp" => st.make_layer_transparent(),
        "stampdown" => st.stamp_layer_down(),
        "paste" => st.paste_clipboard_data(&clipboard(ai(0), ai(1), a(2).max(0) as u32, a(3).max(0) as u32, a(4) as u64)),
        "pastex" => {
            // explicit cells: x y w h cell*
            let (w, h) = (a(2).max(0) as u32, a(3).max(0) as u32);
            let mut data = vec![0u8];
            data.extend(i32::to_le_bytes(ai(0)));
            data.extend(i32::to_le_bytes(ai(1)));
            data.extend(u32::to_le_bytes(w));
            data.extend(u32::to_le_bytes(h));
            for k in 0..(w * h) as usize {
                let c = dec_cell(a(4 + k));
                data.extend(u16::to_le_bytes(c.ch as u16));
                data.extend(u16::to_le_bytes(c.attribute.attr));
                data.extend(u16::to_le_bytes(c.attribute.get_font_page() as u16));
                data.extend(u32::to_le_bytes(c.attribute.get_background()));
                data.extend(u32::to_le_bytes(c.attribute.get_foreground()));
            }
            st.paste_clipboard_data(&data)
        }
        "enumsel" => {
            let k = a(0) as u32;
            st.enumerate_selections(move |pos, ch, _sel| {
                if ch.ch as u32 == k {
                    Some(true)
                } else if (pos.x + pos.y) % 3 == 0 {
                    Some(false)
                } else {
                    None
                }
            });
            Ok(())
        }
        "anchor" => st.anchor_layer(),
        "addfloat" => st.add_floating_layer(),
        "ice" => st.set_ice_mode(match a(0) {
            1 => IceMode::Blink,
            2 => IceMode::Ice,
            _ => IceMode::Unlimited,
        }),
        "palmode" => st.set_palette_mode(match a(0) {
            0 => PaletteMode::RGB,
            2 => PaletteMode::Free8,
            3 => PaletteMode::Free16,
            _ => PaletteMode::Fixed16,
        }),
        "fontpage" => st.switch_to_font_page(au(0)),
        "setfont" => st.set_ansi_font(au(0)),
        "addfont" => st.add_ansi_font(au(0)),
        "saucefont" => st.set_sauce_font(if a(0) == 0 { "IBM VGA" } else if a(0) == 1 { "IBM VGA50" } else { "no such font" }),
        "pal" => {
            let cols: Vec<Color> = op.a.iter().map(|c| Color::new((*c >> 16) as u8, (*c >> 8) as u8, *c as u8)).collect();
            st.switch_to_palette(Palette::from_slice(&cols))
        }
        "sauce" => st.update_sauce_data(if a(0) == 0 { None } else { Some(sauce_variant(a(0), ai(1), ai(2))) }),
        "remfont" => st.remove_font(au(0)),
        "fontslot" => st.change_font_slot(au(0), au(1)),
        "replfont" => st.replace_font_usage(au(0), au(1)),
        "centerline" => st.center_line(),
        "jlineleft" => st.justify_line_left(),
        "jlineright" => st.justify_line_right(),
        "eraserow" => st.erase_row(),
        "eraserow_s" => st.erase_row_to_start(),
        "eraserow_e" => st.erase_row_to_end(),
        "erasecol" => st.erase_column(),
        "erasecol_s" => st.erase_column_to_start(),
        "erasecol_e" => st.erase_column_to_end(),
        n => return Err(format!("unknown-op:{n}")),
    };
    r.map_err(|e| format!("{e}"))
}

/// run one operation, catching panics: 0 ok, 1 Err, 2 panic
fn apply_caught(st: &mut EditState, op: &Op) -> i64 {
    match catch_unwind(AssertUnwindSafe(|| apply(st, op))) {
        Ok(Ok(())) => 0,
        Ok(Err(_)) => 1,
        Err(_) => 2,
    }
}

// ---------------------------------------------------------------------------------------------
// the observation the property prescribes
#[derive(Clone, PartialEq, Debug)]
struct LayerSnap {
    meta: Vec<i64>, // role transparency visible locked poslocked alphalocked hasalpha mode color default_font_page
    title: String,
    size: (i32, i32),
    offset: (i32, i32),
    cells: Vec<i64>, // get_char at every position of size, invisible cells as -1
}

#[derive(Clone, PartialEq, Debug)]
struct Snap {
    size: (i32, i32),
    modes: Vec<i64>,
    palette: Vec<(u8, u8, u8)>,
    fonts: Vec<(usize, u64)>,
    sauce: String,
    layers: Vec<LayerSnap>,
}

fn fnv(h: &mut u64, b: &[u8]) {
    for x in b {
        *h ^= *x as u64;
        *h = h.wrapping_mul(0x100000001b3);
    }
}

fn font_hash(f: &BitFont) -> u64 {
    let mut h = 0xcbf29ce484222325u64;
    fnv(&mut h, f.name.as_bytes());
    fnv(&mut h, &f.size.width.to_le_bytes());
    fnv(&mut h, &f.size.height.to_le_bytes());
    let g: BTreeMap<u32, &Vec<u8>> = f.glyphs.iter().map(|(c, g)| (*c as u32, &g.data)).collect();
    for (c, d) in g {
        fnv(&mut h, &c.to_le_bytes());
        fnv(&mut h, d);
    }
    h
}

fn snapshot(st: &EditState) -> Snap {
    let b = st.get_buffer();
    let mut layers = Vec::new();
    for l in &b.layers {
        let p = &l.properties;
        let color = match &p.color {
            None => -1,
            Some(c) => {
                let (r, g, bb) = c.get_rgb();
                ((r as i64) << 16) | ((g as i64) << 8) | bb as i64
            }
        };
        let meta = vec![
            l.role as i64,
            l.transparency as i64,
            p.is_visible as i64,
            p.is_locked as i64,
            p.is_position_locked as i64,
            p.is_alpha_channel_locked as i64,
            p.has_alpha_channel as i64,
            p.mode as i64,
            color,
            l.default_font_page as i64,
        ];
        let (w, h) = (l.get_width(), l.get_height());
        let mut cells = Vec::new();
        if w > 0 && h > 0 && (w as i64) * (h as i64) <= 1_000_000 {
            for y in 0..h {
                for x in 0..w {
                    let c = l.get_char((x, y));
                    cells.push(if c.is_visible() { enc_cell(c) } else { -1 });
                }
            }
        }
        layers.push(LayerSnap { meta, title: p.title.clone(), size: (w, h), offset: (l.get_offset().x, l.get_offset().y), cells });
    }
    let mut fonts: Vec<(usize, u64)> = b.font_iter().map(|(k, f)| (*k, font_hash(f))).collect();
    fonts.sort();
    let sauce = match b.get_sauce() {
        None => String::new(),
        Some(s) => format!(
            "{}|{}|{}|{:?}|{:?}|{}x{}|{:?}|{}|{}|{}|{:?}",
            s.title,
            s.author,
            s.group,
            s.comments.iter().map(|c| c.to_string()).collect::<Vec<_>>(),
            s.data_type.clone() as u8,
            s.buffer_size.width,
            s.buffer_size.height,
            s.font_opt,
            s.use_ice,
            s.use_letter_spacing,
            s.use_aspect_ratio,
            s.sauce_file_type
        ),
    };
    Snap {
        size: (b.get_width(), b.get_height()),
        modes: vec![b.ice_mode as i64, b.palette_mode as i64, b.font_mode as i64, b.buffer_type as i64],
        palette: b.palette.color_iter().map(|c| c.get_rgb()).collect(),
        fonts,
        sauce,
        layers,
    }
}

/// first difference as a small vector: [category, layer, a, b]
/// category 1 buffer size, 2 modes, 3 palette, 4 fonts, 5 sauce, 6 layer count, 7 layer properties, 8 title, 9 layer size, 10 offset, 11 cell
fn diff(a: &Snap, b: &Snap) -> Option<Vec<i64>> {
    if a.size != b.size {
        return Some(vec![1, -1, 0, 0]);
    }
    if a.modes != b.modes {
        return Some(vec![2, -1, 0, 0]);
    }
    if a.palette != b.palette {
        return Some(vec![3, -1, 0, 0]);
    }
    if a.fonts != b.fonts {
        return Some(vec![4, -1, 0, 0]);
    }
    if a.sauce != b.sauce {
        return Some(vec![5, -1, 0, 0]);
    }
    if a.layers.len() != b.layers.len() {
        return Some(vec![6, -1, a.layers.len() as i64, b.layers.len() as i64]);
    }
    for (k, (x, y)) in a.layers.iter().zip(b.layers.iter()).enumerate() {
        let k = k as i64;
        if x.meta != y.meta {
            return Some(vec![7, k, 0, 0]);
        }
        if x.title != y.title {
            return Some(vec![8, k, 0, 0]);
        }
        if x.size != y.size {
            return Some(vec![9, k, 0, 0]);
        }
        if x.offset != y.offset {
            return Some(vec![10, k, 0, 0]);
        }
        if x.cells != y.cells {
            let i = x.cells.iter().zip(y.cells.iter()).position(|(p, q)| p != q).unwrap_or(0) as i64;
            let w = x.size.0.max(1) as i64;
            return Some(vec![11, k, i % w, i / w]);
        }
    }
    None
}

// ---------------------------------------------------------------------------------------------
// the oracle
#[derive(Debug, Clone, PartialEq)]
struct Failure {
    code: i64,  // 1 undo Err, 2 undo panic, 3 undo mismatch, 4 redo Err, 5 redo panic, 6 redo mismatch, 7 stack length wrong,
    // 8 redo history survives a new edit, 9 edit changed the document without an undo record, 10 walk mismatch, 11 walk Err/panic
    step: i64,
    detail: Vec<i64>,
}

struct RunInfo {
    kept: Vec<usize>,
    steps: usize,
}

fn undo_caught(st: &mut EditState) -> i64 {
    match catch_unwind(AssertUnwindSafe(|| st.undo())) {
        Ok(Ok(())) => 0,
        Ok(Err(_)) => 1,
        Err(_) => 2,
    }
}
fn redo_caught(st: &mut EditState) -> i64 {
    match catch_unwind(AssertUnwindSafe(|| st.redo())) {
        Ok(Ok(())) => 0,
        Ok(Err(_)) => 1,
        Err(_) => 2,
    }
}

/// Runs the operations (dropping, with a restart from the initial document, every one that does not report Ok) and
/// then checks the property. `Ok(info)` when it holds.
fn check_history(d: &DocSpec, ops: &[Op], active: &[usize], walk_seed: u64) -> Result<RunInfo, (Failure, Vec<usize>)> {
    let mut kept: Vec<usize> = active.to_vec();
    'restart: loop {
        let mut st = build(d);
        let s0 = snapshot(&st);
        let len0 = st.undo_stack_len();
        let mut at_len: BTreeMap<usize, Option<Snap>> = BTreeMap::new();
        at_len.insert(len0, Some(s0.clone()));
        let mut prev = s0.clone();
        let mut prev_len = len0;
        for (pos, &i) in kept.iter().enumerate() {
            let rc = apply_caught(&mut st, &ops[i]);
            if rc != 0 {
                kept.remove(pos);
                continue 'restart;
            }
            let len = st.undo_stack_len();
            let sn = snapshot(&st);
            if len < prev_len {
                return Err((Failure { code: 7, step: i as i64, detail: vec![prev_len as i64, len as i64] }, kept));
            }
            if len == prev_len {
                if let Some(df) = diff(&prev, &sn) {
                    return Err((Failure { code: 9, step: i as i64, detail: df }, kept));
                }
            }
            for l in prev_len + 1..len {
                at_len.insert(l, None);
            }
            at_len.insert(len, Some(sn.clone()));
            prev = sn;
            prev_len = len;
        }
        let n = prev_len - len0;
        let sf = prev.clone();
        // undo everything the history added
        for k in 1..=n {
            let rc = undo_caught(&mut st);
            if rc != 0 {
                return Err((Failure { code: rc, step: k as i64, detail: vec![] }, kept));
            }
            let len = st.undo_stack_len();
            if len != prev_len - k {
                return Err((Failure { code: 7, step: k as i64, detail: vec![(prev_len - k) as i64, len as i64] }, kept));
            }
            if let Some(Some(want)) = at_len.get(&len) {
                if let Some(df) = diff(want, &snapshot(&st)) {
                    return Err((Failure { code: 3, step: k as i64, detail: df }, kept));
                }
            }
        }
        // redo everything
        for k in 1..=n {
            let rc = redo_caught(&mut st);
            if rc != 0 {
                return Err((Failure { code: 3 + rc, step: k as i64, detail: vec![] }, kept));
            }
            let len = st.undo_stack_len();
            if len != len0 + k {
                return Err((Failure { code: 7, step: k as i64, detail: vec![(len0 + k) as i64, len as i64] }, kept));
            }
            if let Some(Some(want)) = at_len.get(&len) {
                if let Some(df) = diff(want, &snapshot(&st)) {
                    return Err((Failure { code: 6, step: k as i64, detail: df }, kept));
                }
            }
        }
        if let Some(df) = diff(&sf, &snapshot(&st)) {
            return Err((Failure { code: 6, step: n as i64, detail: df }, kept));
        }
        // a walk over undo / redo (with the no-op steps at both ends)
        let mut r = Lcg(walk_seed.wrapping_mul(0x9E3779B97F4A7C15).wrapping_add(n as u64));
        let mut pos = n;
        let mut steps = 2 * n;
        let walk_len = if n == 0 { 2 } else { 2 * n + 6 };
        for w in 0..walk_len {
            let down = if pos == n && r.below(4) != 0 {
                true
            } else if pos == 0 && r.below(4) != 0 {
                false
            } else {
                r.below(2) == 0
            };
            let rc = if down { undo_caught(&mut st) } else { redo_caught(&mut st) };
            steps += 1;
            if rc != 0 {
                return Err((Failure { code: 11, step: w as i64, detail: vec![rc, down as i64] }, kept));
            }
            if down {
                pos = pos.saturating_sub(1);
            } else if pos < n {
                pos += 1;
            }
            let len = st.undo_stack_len();
            if len != len0 + pos {
                return Err((Failure { code: 7, step: w as i64, detail: vec![(len0 + pos) as i64, len as i64] }, kept));
            }
            if let Some(Some(want)) = at_len.get(&len) {
                if let Some(df) = diff(want, &snapshot(&st)) {
                    return Err((Failure { code: 10, step: w as i64, detail: df }, kept));
                }
            }
        }
        // a new edit after an undo discards the redo history
        if n > 0 {
            while st.undo_stack_len() > len0 + (walk_seed as usize % n) {
                if undo_caught(&mut st) != 0 {
                    return Err((Failure { code: 11, step: -1, detail: vec![] }, kept));
                }
            }
            if st.can_redo() {
                let sz = st.get_buffer().get_size();
                let cands = [
                    Op { name: "setc".into(), a: vec![0, 0, 35, 7, 0, 0, 0] },
                    Op { name: "togvis".into(), a: vec![0] },
                    Op { name: "resize".into(), a: vec![0, sz.width as i64 + 1, sz.height as i64] },
                ];
                for c in &cands {
                    let before = st.undo_stack_len();
                    if apply_caught(&mut st, c) == 0 && st.undo_stack_len() > before {
                        let sn = snapshot(&st);
                        let can = st.can_redo();
                        let rc = redo_caught(&mut st);
                        if can || rc != 0 || diff(&sn, &snapshot(&st)).is_some() || st.undo_stack_len() != before + 1 {
                            return Err((Failure { code: 8, step: 0, detail: vec![can as i64, rc] }, kept));
                        }
                        break;
                    }
                }
            }
        }
        return Ok(RunInfo { kept, steps });
    }
}

fn same_class(a: &Failure, b: &Failure) -> bool {
    let cat = |f: &Failure| f.detail.first().copied().unwrap_or(0);
    a.code == b.code && (!(matches!(a.code, 3 | 6 | 9 | 10)) || cat(a) == cat(b))
}

fn hist(args: &[&str]) -> Obs {
    let walk_seed: u64 = args[0].parse().map_err(|_| "bad-seed".to_string())?;
    let (d, ops) = parse(&args[1..])?;
    let all: Vec<usize> = (0..ops.len()).collect();
    match check_history(&d, &ops, &all, walk_seed) {
        Ok(info) => Ok(vec![0, info.kept.len() as i64, info.steps as i64]),
        Err((f, kept)) => {
            // greedy minimisation: drop operations while the same class of failure persists
            let mut cur = kept;
            let mut curf = f;
            let mut changed = true;
            let mut budget = 400;
            while changed && budget > 0 {
                changed = false;
                let mut k = cur.len();
                while k > 0 && budget > 0 {
                    k -= 1;
                    let mut t = cur.clone();
                    t.remove(k);
                    budget -= 1;
                    if let Err((f2, kept2)) = check_history(&d, &ops, &t, walk_seed) {
                        if same_class(&curf, &f2) {
                            cur = kept2;
                            curf = f2;
                            changed = true;
                            k = k.min(cur.len());
                        }
                    }
                }
            }
            let mut v = vec![curf.code, curf.step, cur.len() as i64];
            v.extend(cur.iter().map(|x| *x as i64));
            v.extend(curf.detail.iter());
            Ok(v)
        }
    }
}

// ---------------------------------------------------------------------------------------------
// stage C: raw trace
fn title_code(t: &str) -> (i64, i64) {
    // fluent wraps the placeable of "{ $name } copy" in the isolation marks U+2068 / U+2069
    let plain: String = t.chars().filter(|c| *c != '\u{2068}' && *c != '\u{2069}').collect();
    let mut s = plain.as_str();
    let mut dups = 0;
    while let Some(x) = s.strip_suffix(" copy") {
        s = x;
        dups += 1;
    }
    let base = match s {
        "Background" => 0,
        "Layer" => 1,
        "Floating selection" => 2,
        "new" => 3,
        "" => 4,
        _ => match s.strip_prefix('L').and_then(|x| x.parse::<i64>().ok()) {
            Some(n) => 10 + n,
            None => 9,
        },
    };
    (base, dups)
}

/// status undo_len can_redo bufw bufh nlayers { role flags mode ox oy w h title_base title_dups nlines { len cells… } }
fn raw_obs(st: &EditState, status: i64, out: &mut Vec<i64>) {
    let b = st.get_buffer();
    out.push(status);
    out.push(st.undo_stack_len() as i64);
    out.push(st.can_redo() as i64);
    out.push(b.get_width() as i64);
    out.push(b.get_height() as i64);
    out.push(b.layers.len() as i64);
    for l in &b.layers {
        let p = &l.properties;
        out.push(l.role as i64);
        out.push(p.is_visible as i64 | (p.is_locked as i64) << 1 | (p.is_position_locked as i64) << 2 | (p.is_alpha_channel_locked as i64) << 3 | (p.has_alpha_channel as i64) << 4);
        out.push(p.mode as i64);
        out.push(l.get_offset().x as i64);
        out.push(l.get_offset().y as i64);
        out.push(l.get_width() as i64);
        out.push(l.get_height() as i64);
        let (tb, td) = title_code(&p.title);
        out.push(tb);
        out.push(td);
        out.push(l.lines.len() as i64);
        for line in &l.lines {
            out.push(line.chars.len() as i64);
            for c in &line.chars {
                out.push(enc_cell(*c));
            }
        }
    }
}

fn trace(args: &[&str]) -> Obs {
    let (d, ops) = parse(args)?;
    let mut st = build(&d);
    let mut out = Vec::new();
    raw_obs(&st, 0, &mut out);
    for op in &ops {
        let rc = match op.name.as_str() {
            "U" => undo_caught(&mut st),
            "R" => redo_caught(&mut st),
            _ => apply_caught(&mut st, op),
        };
        if rc != 0 {
            out.push(rc);
            return Ok(out);
        }
        raw_obs(&st, 0, &mut out);
    }
    Ok(out)
}

/// flip maps of a font, read back through flip_x / flip_y on a 512 x 2 layer holding every code (the font sits in slot 0)
fn flip_probe_font(font: Option<BitFont>) -> Obs {
    let mut out = Vec::new();
    for vertical in [false, true] {
        let mut buf = Buffer::new((512, 2));
        if let Some(f) = &font {
            buf.set_font(0, f.clone());
        }
        let mut st = EditState::from_buffer(buf);
        for c in 0..256u32 {
            let ch = AttributedChar::new(char::from_u32(c).unwrap(), TextAttribute::new(7, 1));
            st.get_buffer_mut().layers[0].set_char((c as i32, 0), ch);
        }
        if vertical {
            st.flip_y().map_err(|e| e.to_string())?;
        } else {
            st.flip_x().map_err(|e| e.to_string())?;
        }
        for c in 0..256i32 {
            let pos = if vertical { (c, 1) } else { (511 - c, 0) };
            out.push(st.get_buffer().layers[0].get_char(pos).ch as i64);
        }
    }
    Ok(out)
}

fn flip_probe() -> Obs {
    flip_probe_font(None)
}

/// `c08flipf k`: k < 100 the font of ANSI page k, otherwise SAUCE font k - 100; output: font id, then the two maps
fn flip_probe_sel(args: &[&str]) -> Obs {
    let k: usize = args.first().and_then(|s| s.parse().ok()).ok_or("bad-font")?;
    let f = if k < 100 { BitFont::from_ansi_font_page(k) } else { BitFont::from_sauce_name(SAUCE_NAMES.get(k - 100).copied().unwrap_or("?")) };
    let f = f.map_err(|e| e.to_string())?;
    let mut out = vec![font_id(&f)];
    out.extend(flip_probe_font(Some(f))?);
    Ok(out)
}

// ---------------------------------------------------------------------------------------------
// stage C, full document: raw_obs followed by
//   ice palmode fontmode caret_font_page  npal rgb*  nfonts (slot id)*  (0 | 1 w h rest)  (0 | 1 ax ay lx ly addtype)  mask_row* (one per buffer row)
fn xraw_obs(st: &EditState, out: &mut Vec<i64>) {
    raw_obs(st, 0, out);
    let b = st.get_buffer();
    out.push(match b.ice_mode {
        IceMode::Unlimited => 0,
        IceMode::Blink => 1,
        IceMode::Ice => 2,
    });
    out.push(match b.palette_mode {
        PaletteMode::RGB => 0,
        PaletteMode::Fixed16 => 1,
        PaletteMode::Free8 => 2,
        PaletteMode::Free16 => 3,
    });
    out.push(match b.font_mode {
        FontMode::Sauce => 0,
        FontMode::Single => 1,
        FontMode::FixedSize => 2,
        FontMode::Unlimited => 3,
    });
    out.push(st.get_caret().get_font_page() as i64);
    out.push(b.palette.len() as i64);
    for c in b.palette.color_iter() {
        let (r, g, bb) = c.get_rgb();
        out.push(((r as i64) << 16) | ((g as i64) << 8) | bb as i64);
    }
    let mut fonts: Vec<(usize, i64)> = b.font_iter().map(|(k, f)| (*k, font_id(f))).collect();
    fonts.sort();
    out.push(fonts.len() as i64);
    for (k, id) in fonts {
        out.push(k as i64);
        out.push(id);
    }
    match b.get_sauce() {
        None => out.push(0),
        Some(s) => {
            out.push(1);
            out.push(s.buffer_size.width as i64);
            out.push(s.buffer_size.height as i64);
            out.push(sauce_rest(s));
        }
    }
    match st.get_selection() {
        None => out.push(0),
        Some(s) => {
            out.push(1);
            out.push(s.anchor.x as i64);
            out.push(s.anchor.y as i64);
            out.push(s.lead.x as i64);
            out.push(s.lead.y as i64);
            out.push(match s.add_type {
                AddType::Default => 0,
                AddType::Add => 1,
                AddType::Subtract => 2,
            });
        }
    }
    let (w, h) = (b.get_width().clamp(0, 60), b.get_height().clamp(0, 200));
    for y in 0..h {
        let mut row = 0i64;
        for x in 0..w {
            if st.get_is_mask_selected((x, y)) {
                row |= 1 << x;
            }
        }
        out.push(row);
    }
}

fn xtrace(args: &[&str]) -> Obs {
    let (d, ops) = parse(args)?;
    let mut st = build(&d);
    let mut out = Vec::new();
    xraw_obs(&st, &mut out);
    for op in &ops {
        let rc = match op.name.as_str() {
            "U" => undo_caught(&mut st),
            "R" => redo_caught(&mut st),
            _ => apply_caught(&mut st, op),
        };
        if rc != 0 {
            out.push(rc);
            return Ok(out);
        }
        xraw_obs(&st, &mut out);
    }
    Ok(out)
}

/// what the model takes as parameters: DOS_DEFAULT_PALETTE (16 rgb), the font of ANSI page 0..63 (0 = unsupported), the two SAUCE fonts,
/// the `rest` numbers of the SAUCE records 0..=3 and of record 0 with use_ice
fn probe() -> Obs {
    let mut out = Vec::new();
    let b = Buffer::new((1, 1));
    for c in b.palette.color_iter() {
        let (r, g, bb) = c.get_rgb();
        out.push(((r as i64) << 16) | ((g as i64) << 8) | bb as i64);
    }
    if out.len() != 16 {
        return Err("default palette is not 16 colours".into());
    }
    for k in 0..64usize {
        out.push(match BitFont::from_ansi_font_page(k) {
            Ok(f) => font_id(&f),
            Err(_) => 0,
        });
    }
    for n in SAUCE_NAMES {
        out.push(match BitFont::from_sauce_name(n) {
            Ok(f) => font_id(&f),
            Err(_) => 0,
        });
    }
    for k in 0..4 {
        out.push(sauce_rest(&sauce_variant(k, 1, 1)));
    }
    // record 0 as `build` stores it in an ice-mode document
    let mut s = sauce_variant(0, 1, 1);
    s.use_ice = true;
    out.push(sauce_rest(&s));
    // the character map of rotate_layer: a 256 x 1 layer holding every code becomes a 1 x 256 layer
    let mut st = EditState::from_buffer(Buffer::new((256, 1)));
    for c in 0..256u32 {
        st.get_buffer_mut().layers[0].set_char((c as i32, 0), AttributedChar::new(char::from_u32(c).unwrap(), TextAttribute::new(7, 1)));
    }
    st.rotate_layer().map_err(|e| e.to_string())?;
    for c in 0..256i32 {
        out.push(st.get_buffer().layers[0].get_char((0, c)).ch as i64);
    }
    Ok(out)
}

pub fn run(kind: &str, args: &[&str]) -> Option<Obs> {
    match kind {
        "c08hist" => Some(hist(args)),
        "c08trace" => Some(trace(args)),
        "c08xtrace" => Some(xtrace(args)),
        "c08flip" => Some(flip_probe()),
        "c08flipf" => Some(flip_probe_sel(args)),
        "c08probe" => Some(probe()),
        _ => None,
    }
}
