//! C17: bitmap fonts (src/fonts.rs, DCS `CTerm:Font:`, XBin/ADF/IDF/IcyDraw font slots) and TheDraw fonts
//! (src/tdf_font/mod.rs) through the public API only.  Kinds (all prefixed `c17.`), see props/c17.py:
//!
//!   c17.fb <hex>                         BitFont::from_bytes               -> font observation | err class
//!   c17.c8 <w> <h> <hex> / c17.basic …    BitFont::create_8 / from_basic    -> font observation
//!   c17.psf2 <font>                      to_psf2_bytes                     -> bytes
//!   c17.raw  <font>                      convert_to_u8_data                -> bytes
//!   c17.ansi <slot> <font>               encode_as_ansi                    -> bytes of the string
//!   c17.dcs  <slot> <hex>                feed bytes to ansi::Parser        -> [errors, has_font, font observation]
//!   c17.embed <ext> <font>               Buffer::to_bytes / from_bytes     -> font observation of slot 0 after reload
//!   c17.builtin ansi <n> | sauce <i>     from_ansi_font_page / from_sauce_name(SAUCE_FONT_NAMES[i])
//!   c17.nbuiltin                         [ANSI_FONTS, SAUCE_FONT_NAMES.len()]
//!   c17.tdfenc single|bundle <fonts>     as_tdf_bytes / create_font_bundle -> bytes | err class
//!   c17.tdfdec <hex>                     from_tdf_bytes                    -> fonts observation | err class
//!   c17.utf8 <hex>                       [from_utf8 is ok, lossy bytes…]
//!
//! <font>  = <w> <h> <length> <n> <gh> <hex of n*gh bytes>   (n glyphs with codes 0..n, each gh row bytes; codes that
//!           are not chars are left out of the map)
//! <fonts> = <k> { <namehex> <type 0|1|2> <spaces> <m> { <index 0..93> <w> <h> <datahex> }*m }*k
//! font observation = [w, h, length, n, { code, rows, row bytes… }*n in code order]
//! fonts observation = [k, { namelen, name bytes…, type, spaces, 94 × has_char, status, len, bytes… }*k] where the
//!   last part is `as_tdf_bytes` of a copy of the decoded font with empty name and spaces 0 (status 0 = Ok; the
//!   only way the public API shows the glyph table; the python oracle parses those bytes with its own reader).
use crate::util::{int, unhex};
use crate::Obs;
use icy_engine::{ansi, BitFont, Buffer, BufferParser, Caret, FontError, FontGlyph, FontType, Glyph, SaveOptions, Size, TdfError, TheDrawFont};
use std::collections::HashMap;
use std::path::Path;

// anyhow::Error without naming the anyhow crate (the harness depends on icy_engine only)
trait ErrOf {
    type E;
}
impl<T, E> ErrOf for Result<T, E> {
    type E = E;
}
type AnyErr = <icy_engine::EngineResult<()> as ErrOf>::E;

fn font_obs(f: &BitFont) -> Vec<i64> {
    let mut keys: Vec<u32> = f.glyphs.keys().map(|c| *c as u32).collect();
    keys.sort_unstable();
    let mut v = vec![f.size.width as i64, f.size.height as i64, f.length as i64, keys.len() as i64];
    for k in keys {
        let g = &f.glyphs[&char::from_u32(k).unwrap()];
        v.push(k as i64);
        v.push(g.data.len() as i64);
        v.extend(g.data.iter().map(|b| *b as i64));
    }
    v
}

fn font_err(e: &AnyErr) -> String {
    match e.downcast_ref::<FontError>() {
        Some(FontError::FontNotFound) => "FontNotFound".into(),
        Some(FontError::MagicNumberMismatch) => "MagicNumberMismatch".into(),
        Some(FontError::UnsupportedVersion(_)) => "UnsupportedVersion".into(),
        Some(FontError::LengthMismatch(_, _)) => "LengthMismatch".into(),
        Some(FontError::UnknownFontFormat(_)) => "UnknownFontFormat".into(),
        Some(FontError::UnsupportedSize(_, _)) => "UnsupportedSize".into(),
        None => format!("other:{}", e.to_string().chars().take(60).collect::<String>()),
    }
}

fn tdf_err(e: &AnyErr) -> String {
    match e.downcast_ref::<TdfError>() {
        Some(TdfError::FileTooShort) => "FileTooShort".into(),
        Some(TdfError::IdMismatch) => "IdMismatch".into(),
        Some(TdfError::NameTooLong(_)) => "NameTooLong".into(),
        Some(TdfError::UnsupportedTtfType(_)) => "UnsupportedTtfType".into(),
        Some(TdfError::DataOverflow(_)) => "DataOverflow".into(),
        Some(TdfError::GlyphOutsideFontDataSize(_)) => "GlyphOutsideFontDataSize".into(),
        Some(TdfError::LetterSpaceTooMuch(_)) => "LetterSpaceTooMuch".into(),
        Some(TdfError::IdLengthMismatch(_)) => "IdLengthMismatch".into(),
        Some(TdfError::FontIndicatorMismatch) => "FontIndicatorMismatch".into(),
        None => format!("other:{}", e.to_string().chars().take(60).collect::<String>()),
    }
}

/// a BitFont whose glyph table is filled here (not by the crate's own chunking code)
fn build_font(a: &[&str]) -> (BitFont, usize) {
    let (w, h, length, n, gh) = (int(a[0]) as i32, int(a[1]) as i32, int(a[2]) as i32, int(a[3]) as usize, int(a[4]) as usize);
    let data = unhex(a[5]);
    let mut f = BitFont::create_8("c17 test font", 8, 1, &[]);
    f.size = Size::new(w, h);
    f.length = length;
    let mut m = HashMap::new();
    for i in 0..n {
        // codes that are not chars (0xD800..=0xDFFF) cannot be keys: a table that spans them has a hole there
        if let Some(c) = char::from_u32(i as u32) {
            m.insert(c, Glyph { data: data[i * gh..(i + 1) * gh].to_vec() });
        }
    }
    f.glyphs = m;
    (f, 6)
}

fn bytes_obs(b: &[u8]) -> Vec<i64> {
    b.iter().map(|x| *x as i64).collect()
}

fn build_tdf(a: &[&str]) -> Vec<TheDrawFont> {
    let mut i = 0;
    let k = int(a[i]) as usize;
    i += 1;
    let mut out = Vec::new();
    for _ in 0..k {
        let name = String::from_utf8(unhex(a[i])).expect("test names are utf-8");
        let ty = match int(a[i + 1]) {
            0 => FontType::Outline,
            1 => FontType::Block,
            _ => FontType::Color,
        };
        let spaces = int(a[i + 2]) as i32;
        let m = int(a[i + 3]) as usize;
        i += 4;
        let mut f = TheDrawFont::new(name, ty, spaces);
        for _ in 0..m {
            let idx = int(a[i]) as u32;
            let g = FontGlyph {
                size: Size::new(int(a[i + 1]) as i32, int(a[i + 2]) as i32),
                data: unhex(a[i + 3]),
            };
            i += 4;
            f.set_glyph(char::from_u32(33 + idx).unwrap(), g);
        }
        out.push(f);
    }
    out
}

pub fn run(kind: &str, args: &[&str]) -> Option<Obs> {
    Some(match kind {
        "c17.fb" => match BitFont::from_bytes("c17", &unhex(args[0])) {
            Ok(f) => Ok(font_obs(&f)),
            Err(e) => Err(font_err(&e)),
        },
        "c17.c8" => Ok(font_obs(&BitFont::create_8("c17", int(args[0]) as u8, int(args[1]) as u8, &unhex(args[2])))),
        "c17.basic" => Ok(font_obs(&BitFont::from_basic(int(args[0]) as u8, int(args[1]) as u8, &unhex(args[2])))),
        "c17.psf2" => {
            let (f, _) = build_font(args);
            match f.to_psf2_bytes() {
                Ok(b) => Ok(bytes_obs(&b)),
                Err(e) => Err(font_err(&e)),
            }
        }
        "c17.raw" => {
            let (f, _) = build_font(args);
            Ok(bytes_obs(&f.convert_to_u8_data()))
        }
        "c17.ansi" => {
            let (f, _) = build_font(&args[1..]);
            Ok(bytes_obs(f.encode_as_ansi(int(args[0]) as usize).as_bytes()))
        }
        "c17.dcs" => {
            let slot = int(args[0]) as usize;
            let mut buf = Buffer::new((80, 25));
            buf.is_terminal_buffer = true;
            let mut caret = Caret::default();
            let mut p = ansi::Parser::default();
            let mut nerr = 0;
            for b in unhex(args[1]) {
                if p.print_char(&mut buf, 0, &mut caret, b as char).is_err() {
                    nerr += 1;
                }
            }
            let mut v = vec![nerr];
            match buf.get_font(slot) {
                Some(f) => {
                    v.push(1);
                    v.extend(font_obs(f));
                }
                None => v.push(0),
            }
            Ok(v)
        }
        "c17.embed" => {
            let (f, _) = build_font(&args[1..]);
            let mut buf = Buffer::new((80, 25));
            buf.set_font(0, f);
            if args[0] == "adf" || args[0] == "idf" {
                buf.ice_mode = icy_engine::IceMode::Ice; // the only mode these writers accept
            }
            let mut opt = SaveOptions::default();
            opt.lossles_output = true;
            let bytes = match buf.to_bytes(args[0], &opt) {
                Ok(b) => b,
                Err(e) => return Some(Err(format!("save:{}", e.to_string().chars().take(60).collect::<String>()))),
            };
            let name = format!("a.{}", args[0]);
            match Buffer::from_bytes(Path::new(&name), false, &bytes) {
                Ok(b2) => match b2.get_font(0) {
                    Some(f2) => Ok(font_obs(f2)),
                    None => Err("load:no-font-0".into()),
                },
                Err(e) => Err(format!("load:{}", e.to_string().chars().take(60).collect::<String>())),
            }
        }
        "c17.builtin" => {
            let r = if args[0] == "ansi" {
                BitFont::from_ansi_font_page(int(args[1]) as usize)
            } else {
                BitFont::from_sauce_name(icy_engine::SAUCE_FONT_NAMES[int(args[1]) as usize])
            };
            match r {
                Ok(f) => Ok(font_obs(&f)),
                Err(e) => Err(font_err(&e)),
            }
        }
        "c17.nbuiltin" => Ok(vec![icy_engine::ANSI_FONTS as i64, icy_engine::SAUCE_FONT_NAMES.len() as i64]),
        "c17.tdfenc" => {
            let fonts = build_tdf(&args[1..]);
            let r = if args[0] == "single" { fonts[0].as_tdf_bytes() } else { TheDrawFont::create_font_bundle(&fonts) };
            match r {
                Ok(b) => Ok(bytes_obs(&b)),
                Err(e) => Err(tdf_err(&e)),
            }
        }
        "c17.tdfdec" => match TheDrawFont::from_tdf_bytes(&unhex(args[0])) {
            Ok(fonts) => {
                let mut v = vec![fonts.len() as i64];
                for f in &fonts {
                    let nb = f.name.as_bytes();
                    v.push(nb.len() as i64);
                    v.extend(nb.iter().map(|b| *b as i64));
                    v.push(match f.font_type {
                        FontType::Outline => 0,
                        FontType::Block => 1,
                        FontType::Color => 2,
                    });
                    v.push(f.spaces as i64);
                    for c in 33u8..127 {
                        v.push(f.has_char(c) as i64);
                    }
                    let mut g = f.clone();
                    g.name = String::new();
                    g.spaces = 0;
                    match g.as_tdf_bytes() {
                        Ok(b) => {
                            v.push(0);
                            v.push(b.len() as i64);
                            v.extend(bytes_obs(&b));
                        }
                        Err(_) => {
                            v.push(1);
                            v.push(0);
                        }
                    }
                }
                Ok(v)
            }
            Err(e) => Err(tdf_err(&e)),
        },
        "c17.utf8" => {
            let b = unhex(args[0]);
            let mut v = vec![std::str::from_utf8(&b).is_ok() as i64];
            v.extend(bytes_obs(String::from_utf8_lossy(&b).as_bytes()));
            Ok(v)
        }
        _ => return None,
    })
}
