//! C18: 8-bit attribute codec and code-page converters through the public API (see props/c18.py).
//!
//! Modes are numbered as `IceMode::to_byte` does: 0 Unlimited, 1 Blink, 2 Ice.
//! Converters: cp437 | atascii | petscii | viewdata | mode7.
//! An attribute is observed as [get_foreground, get_background, attr, get_font_page].
use crate::Obs;
use icy_engine::{AttributedChar, IceMode, TextAttribute, UnicodeConverter};

fn mode(s: &str) -> IceMode {
    match s {
        "0" => IceMode::Unlimited,
        "1" => IceMode::Blink,
        "2" => IceMode::Ice,
        _ => panic!("bad mode"),
    }
}

fn conv(s: &str) -> Box<dyn UnicodeConverter> {
    match s {
        "cp437" => Box::<icy_engine::ascii::CP437Converter>::default(),
        "atascii" => Box::<icy_engine::atascii::CharConverter>::default(),
        "petscii" => Box::<icy_engine::petscii::CharConverter>::default(),
        "viewdata" => Box::<icy_engine::viewdata::CharConverter>::default(),
        "mode7" => Box::<icy_engine::mode7::CharConverter>::default(),
        _ => panic!("bad converter"),
    }
}

fn obs_attr(v: &mut Vec<i64>, a: TextAttribute) {
    v.push(a.get_foreground() as i64);
    v.push(a.get_background() as i64);
    v.push(a.attr as i64);
    v.push(a.get_font_page() as i64);
}

fn mk(fg: u32, bg: u32, attr: u16, page: usize) -> TextAttribute {
    let mut a = TextAttribute::new(fg, bg);
    a.attr = attr;
    a.set_font_page(page);
    a
}

fn u(s: &str) -> u64 {
    s.parse().unwrap()
}

pub fn run(kind: &str, args: &[&str]) -> Option<Obs> {
    let mut v: Vec<i64> = Vec::new();
    match kind {
        // from_u8 on all 256 bytes of one mode
        "attrdec" => {
            let m = mode(args[0]);
            for b in 0..=255u8 {
                obs_attr(&mut v, TextAttribute::from_u8(b, m));
            }
        }
        // decode then encode, all 256 bytes of one mode
        "attrrt" => {
            let m = mode(args[0]);
            for b in 0..=255u8 {
                v.push(TextAttribute::from_u8(b, m).as_u8(m) as i64);
            }
        }
        // as_u8 on the 16x16 colour grid with a given flag word and font page
        "attrenc" => {
            let m = mode(args[0]);
            let (attr, page) = (u(args[1]) as u16, u(args[2]) as usize);
            for fg in 0..16u32 {
                for bg in 0..16u32 {
                    v.push(mk(fg, bg, attr, page).as_u8(m) as i64);
                }
            }
        }
        // as_u8 on one arbitrary attribute
        "attrenc1" => {
            let m = mode(args[0]);
            v.push(mk(u(args[1]) as u32, u(args[2]) as u32, u(args[3]) as u16, u(args[4]) as usize).as_u8(m) as i64);
        }
        // encode then decode on the 16x16 colour grid, attribute built with the public setters;
        // per cell: [foreground, is_bold, background, is_blinking] of the decoded attribute
        "attrencdec" => {
            let m = mode(args[0]);
            let (blink, bold) = (args[1] == "1", args[2] == "1");
            for fg in 0..16u32 {
                for bg in 0..16u32 {
                    let mut a = TextAttribute::new(fg, bg);
                    a.set_is_blinking(blink);
                    a.set_is_bold(bold);
                    let d = TextAttribute::from_u8(a.as_u8(m), m);
                    v.push(d.get_foreground() as i64);
                    v.push(d.is_bold() as i64);
                    v.push(d.get_background() as i64);
                    v.push(d.is_blinking() as i64);
                }
            }
        }
        // from_color for fg in lo..lo+n and every bg
        "fromcolor" => {
            let (lo, n) = (u(args[0]), u(args[1]));
            for fg in lo..lo + n {
                for bg in 0..=255u8 {
                    // packed: fg | bg << 8 | attr << 16 | font_page << 32 (colours of from_color are u8-derived)
                    let a = TextAttribute::from_color(fg as u8, bg);
                    assert!(a.get_foreground() < 256 && a.get_background() < 256 && a.get_font_page() < (1 << 30));
                    v.push(a.get_foreground() as i64 | (a.get_background() as i64) << 8 | (a.attr as i64) << 16 | (a.get_font_page() as i64) << 32);
                }
            }
        }
        // bold / blink setters and getters on flag words lo..lo+n, two packed numbers per word:
        // (blink:=true) | (blink:=false) << 16 | is_blinking << 32 ; (bold:=true) | (bold:=false) << 16 | is_bold << 32
        "flags" => {
            let (lo, n) = (u(args[0]), u(args[1]));
            for w in lo..lo + n {
                let a = mk(7, 0, w as u16, 0);
                let mut r = [0i64; 4];
                for (i, (which, val)) in [(0, true), (0, false), (1, true), (1, false)].into_iter().enumerate() {
                    let mut b = a;
                    if which == 0 {
                        b.set_is_blinking(val);
                    } else {
                        b.set_is_bold(val);
                    }
                    r[i] = b.attr as i64;
                }
                v.push(r[0] | r[1] << 16 | (a.is_blinking() as i64) << 32);
                v.push(r[2] | r[3] << 16 | (a.is_bold() as i64) << 32);
            }
        }
        // convert_to_unicode on code points lo..lo+n (-1 where the value is not a char)
        "convto" | "convfrom" => {
            let c = conv(args[0]);
            let (lo, n) = (u(args[1]), u(args[2]));
            let page = if args.len() > 3 { u(args[3]) as usize } else { 0 };
            for x in lo..lo + n {
                match char::from_u32(x as u32) {
                    None => v.push(-1),
                    Some(ch) => {
                        let r = if kind == "convto" {
                            c.convert_to_unicode(AttributedChar::new(ch, mk(page as u32, 3, page as u16, page)))
                        } else {
                            c.convert_from_unicode(ch, page)
                        };
                        v.push(r as u32 as i64);
                    }
                }
            }
        }
        // the same on a list of code points
        "convtol" | "convfroml" => {
            let c = conv(args[0]);
            for s in &args[1..] {
                let ch = char::from_u32(u(s) as u32).unwrap();
                let r = if kind == "convtol" {
                    c.convert_to_unicode(AttributedChar::new(ch, TextAttribute::default()))
                } else {
                    c.convert_from_unicode(ch, 0)
                };
                v.push(r as u32 as i64);
            }
        }
        // the whole `char` domain from `lo` up: every (c, f(c)) with f(c) != c; dir = to | from
        "convnonid" => {
            let c = conv(args[0]);
            let lo = u(args[2]) as u32;
            let hi = if args.len() > 3 { u(args[3]) as u32 } else { 0x11_0000 };
            for x in lo..hi {
                if let Some(ch) = char::from_u32(x) {
                    let r = if args[1] == "to" {
                        c.convert_to_unicode(AttributedChar::new(ch, TextAttribute::default()))
                    } else {
                        c.convert_from_unicode(ch, 0)
                    };
                    if r != ch {
                        v.push(x as i64);
                        v.push(r as u32 as i64);
                    }
                }
            }
        }
        // property oracle: from_color(fg, bg) encodes in Blink mode to fg | bg << 4 (low nibbles), all u8 x u8:
        // [number of mismatches, then up to 8 of them as fg, bg, byte]
        "fromcolorrt" => {
            let mut bad = Vec::new();
            let mut n = 0i64;
            for fg in 0..=255u8 {
                for bg in 0..=255u8 {
                    let got = TextAttribute::from_color(fg, bg).as_u8(IceMode::Blink);
                    if got != (fg & 15) | ((bg & 15) << 4) {
                        n += 1;
                        if bad.len() < 24 {
                            bad.extend([fg as i64, bg as i64, got as i64]);
                        }
                    }
                }
            }
            v.push(n);
            v.extend(bad);
        }
        // property oracle: code -> unicode -> code on all 256 codes
        "cprt" => {
            let c = conv(args[0]);
            for x in 0..256u32 {
                let ch = char::from_u32(x).unwrap();
                let uni = c.convert_to_unicode(AttributedChar::new(ch, TextAttribute::default()));
                v.push(c.convert_from_unicode(uni, 0) as u32 as i64);
            }
        }
        // property oracle: typed character -> emulation code -> character, on the given characters
        "typed" => {
            let c = conv(args[0]);
            for s in &args[1..] {
                let ch = char::from_u32(u(s) as u32).unwrap();
                let code = c.convert_from_unicode(ch, 0);
                v.push(code as u32 as i64);
                v.push(c.convert_to_unicode(AttributedChar::new(code, TextAttribute::default())) as u32 as i64);
            }
        }
        _ => return None,
    }
    Some(Ok(v))
}
