pub fn unhex(s: &str) -> Vec<u8> {
    if s == "-" {
        return Vec::new();
    }
    (0..s.len() / 2).map(|i| u8::from_str_radix(&s[2 * i..2 * i + 2], 16).unwrap()).collect()
}

#[allow(dead_code)]
pub fn hex(b: &[u8]) -> String {
    if b.is_empty() {
        return "-".to_string();
    }
    b.iter().map(|x| format!("{x:02x}")).collect()
}

#[allow(dead_code)]
pub fn int(s: &str) -> i64 {
    s.parse().unwrap()
}
