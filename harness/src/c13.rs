//! C13: implementation-side case runners (see props/c13.py). Stub until the property is built.
use crate::Obs;

pub fn run(_kind: &str, _args: &[&str]) -> Option<Obs> {
    None
}
