//! C13: layer compositing — the real `Buffer::get_char` on stacks described by the case (see props/c13.py).
//!
//! `comp <ints…>`:
//!   term
//!   nfonts { page w h nglyphs { ch len byte* }* }*
//!   nlayers { visible alpha mode offx offy haspreview px py w h dfp build
//!             build=0 (raw `lines`): nrows { ncells { ch fg bg attr fpage }* }*
//!             build=1 (Layer::new + set_char): nset { x y ch fg bg attr fpage }* }*        (bottom layer first)
//!   x0 y0 x1 y1
//! -> for y in y0..=y1, x in x0..=x1: ch fg bg attr fpage of `buf.get_char((x,y))`
//! `font0` -> w h { len byte* } for the 256 codes of the font `Buffer::new` installs at page 0
use crate::Obs;
use icy_engine::{AttributedChar, BitFont, Buffer, Glyph, Layer, Line, Mode, Size, TextAttribute, TextPane};

struct Rd<'a> {
    a: &'a [&'a str],
    i: usize,
}
impl<'a> Rd<'a> {
    fn next(&mut self) -> i64 {
        let v: i64 = self.a[self.i].parse().unwrap();
        self.i += 1;
        v
    }
    fn cell(&mut self) -> AttributedChar {
        let ch = self.next() as u32;
        let fg = self.next() as u32;
        let bg = self.next() as u32;
        let attr = self.next() as u16;
        let fpage = self.next() as usize;
        let mut a = TextAttribute::new(fg, bg);
        a.attr = attr;
        a.set_font_page(fpage);
        AttributedChar::new(char::from_u32(ch).unwrap(), a)
    }
}

fn build(r: &mut Rd) -> Buffer {
    let term = r.next() != 0;
    let mut buf = Buffer::new((80, 25));
    buf.is_terminal_buffer = term;
    buf.layers.clear();
    let nfonts = r.next();
    for _ in 0..nfonts {
        let page = r.next() as usize;
        let w = r.next() as i32;
        let h = r.next() as i32;
        let ng = r.next();
        let mut f = BitFont::create_8("verif", 8, 1, &[]);
        f.size = Size::new(w, h);
        f.glyphs.clear();
        for _ in 0..ng {
            let ch = char::from_u32(r.next() as u32).unwrap();
            let len = r.next();
            let data: Vec<u8> = (0..len).map(|_| r.next() as u8).collect();
            f.glyphs.insert(ch, Glyph { data });
        }
        buf.set_font(page, f);
    }
    let nl = r.next();
    for _ in 0..nl {
        let visible = r.next() != 0;
        let alpha = r.next() != 0;
        let mode = match r.next() {
            0 => Mode::Normal,
            1 => Mode::Chars,
            _ => Mode::Attributes,
        };
        let offx = r.next() as i32;
        let offy = r.next() as i32;
        let has_preview = r.next() != 0;
        let px = r.next() as i32;
        let py = r.next() as i32;
        let w = r.next() as i32;
        let h = r.next() as i32;
        let dfp = r.next() as usize;
        let build = r.next();
        let mut l;
        if build == 0 {
            l = Layer::new("l", (0, 0));
            l.set_size((w, h));
            l.lines.clear();
            let nrows = r.next();
            for _ in 0..nrows {
                let nc = r.next();
                let chars: Vec<AttributedChar> = (0..nc).map(|_| r.cell()).collect();
                l.lines.push(Line { chars });
            }
        } else {
            // the way the repository's own tests build stacks
            l = Layer::new("l", (w, h));
            let nset = r.next();
            for _ in 0..nset {
                let x = r.next() as i32;
                let y = r.next() as i32;
                let c = r.cell();
                l.set_char((x, y), c);
            }
        }
        l.properties.has_alpha_channel = alpha;
        l.properties.mode = mode;
        l.set_offset((offx, offy));
        if has_preview {
            l.set_preview_offset(Some((px, py).into()));
        }
        l.default_font_page = dfp;
        l.properties.is_visible = visible;
        buf.layers.push(l);
    }
    buf
}

pub fn run(kind: &str, args: &[&str]) -> Option<Obs> {
    Some(match kind {
        "comp" => {
            let mut r = Rd { a: args, i: 0 };
            let buf = build(&mut r);
            let (x0, y0, x1, y1) = (r.next() as i32, r.next() as i32, r.next() as i32, r.next() as i32);
            let mut out = Vec::new();
            for y in y0..=y1 {
                for x in x0..=x1 {
                    let c = buf.get_char((x, y));
                    out.push(c.ch as u32 as i64);
                    out.push(c.attribute.get_foreground() as i64);
                    out.push(c.attribute.get_background() as i64);
                    out.push(c.attribute.attr as i64);
                    out.push(c.attribute.get_font_page() as i64);
                }
            }
            Ok(out)
        }
        "font0" => {
            let buf = Buffer::new((80, 25));
            let f = buf.get_font(0).unwrap();
            let mut out = vec![f.size.width as i64, f.size.height as i64, f.glyphs.len() as i64];
            for c in 0..256u32 {
                match f.get_glyph(char::from_u32(c).unwrap()) {
                    Some(g) => {
                        out.push(g.data.len() as i64);
                        out.extend(g.data.iter().map(|b| *b as i64));
                    }
                    None => out.push(-1),
                }
            }
            Ok(out)
        }
        _ => return None,
    })
}
