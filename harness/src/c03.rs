//! C03: resource use of one control sequence / one file.
//! `feed <emu> <w> <h> <hex bytes>` -> elapsed_us  buffer_height  lines_len  max_row_len  errors  peak_rss_kb  sixel_threads
//!     emu: 0 ansi, 1 ansi+music, 2 avatar, 3 pcboard, 4 ctrla, 5 renegade, 6 ascii, 7 petscii, 8 atascii, 9 viewdata, 10 mode7
//! `seq <emu> <w> <h> <prefix hex> <hex bytes>` -> the prefix builds the state (not measured), then the sequence is fed and
//!     every sixel decode thread it started is joined (decode time and memory belong to the sequence):
//!     elapsed_us rows_before rows_after cells_before cells_after bh lh cx cy max_row errors rss_growth_kb sixel_bytes hash
//!     macro_bytes(-1: not observable)  terminal_w terminal_h
//!     hash = sum over allocated cells (y, x) of ((y * 131 + x + 1) * (code + 1))  mod 2^31-1
//! `load <ext> <hex bytes>`          -> elapsed_us  width height lines_len ok(1)/err(0) peak_rss_kb cells rss_growth_kb
//! `sixel <hex bytes>`               -> elapsed_us  ok width height bytes rss_growth_kb      (Sixel::parse_from, in this thread)
//! `font <hex bytes>`                -> elapsed_us  ok glyphs height rss_growth_kb           (BitFont::from_bytes)
//! `calib <n>`                       -> elapsed_us of n printed characters on 80x25 (reference for the one-sided time check)
//! `c03st <emu09> <w> <h> <cut> <hex bytes>`   the WHOLE input is measured (nothing is set up outside of it); emu09 in the numbering of
//!     c09.rs (0 ANSI, 1 Avatar). Snapshot after `cut` bytes (end of state prefix + table entry) and at the end (after the probe suffix):
//!     elapsed_us rss_growth_kb sixel_bytes
//!     errors_at_cut  <snap>  errors_at_end  <snap>        snap = the observation vector of c09.rs without its class
//!         cx cy bw bh lw lh tw th nlines mt mb ml mr flags ntabs rowsum tabsum   followed by   maxrow cells hash
//!     -7 k len_0 .. len_{k-1} (k = min(nlines, 512))  -8 k tab_0 .. (k = min(ntabs, 512))
use crate::util::unhex;
use crate::Obs;
use icy_engine::{ansi, ascii, atascii, avatar, ctrla, mode7, pcboard, petscii, renegade, viewdata, BitFont, Buffer, BufferParser, Caret, Position, Sixel, TextPane};
use std::path::Path;

fn status_kb(key: &str) -> i64 {
    std::fs::read_to_string("/proc/self/status")
        .ok()
        .and_then(|s| s.lines().find(|l| l.starts_with(key)).map(|l| l.split_whitespace().nth(1).unwrap_or("0").parse().unwrap_or(0)))
        .unwrap_or(0)
}

fn peak_rss_kb() -> i64 {
    status_kb("VmHWM:")
}

/// forget the peak of earlier cases of this worker (Linux: writing 5 to clear_refs resets VmHWM to the current RSS)
fn reset_peak() -> i64 {
    let _ = std::fs::write("/proc/self/clear_refs", "5");
    status_kb("VmRSS:")
}

pub fn make_parser(emu: i64) -> Box<dyn BufferParser> {
    match emu {
        0 => Box::<ansi::Parser>::default(),
        1 => {
            let mut p = ansi::Parser::default();
            p.ansi_music = ansi::MusicOption::Both;
            Box::new(p)
        }
        2 => Box::<avatar::Parser>::default(),
        3 => Box::<pcboard::Parser>::default(),
        4 => Box::<ctrla::Parser>::default(),
        5 => Box::<renegade::Parser>::default(),
        6 => Box::<ascii::Parser>::default(),
        7 => Box::<petscii::Parser>::default(),
        8 => Box::<atascii::Parser>::default(),
        9 => Box::<viewdata::Parser>::default(),
        _ => Box::<mode7::Parser>::default(),
    }
}

fn cells(buf: &Buffer) -> i64 {
    buf.layers[0].lines.iter().map(|l| l.chars.len() as i64).sum()
}

fn snap(t: &crate::c09::Term, out: &mut Vec<i64>) {
    let mut v = Vec::with_capacity(18);
    t.obs(0, &mut v);
    out.extend_from_slice(&v[1..]);
    let max_row = t.buf.layers[0].lines.iter().map(|l| l.chars.len()).max().unwrap_or(0) as i64;
    out.extend_from_slice(&[max_row, cells(&t.buf), hash(&t.buf)]);
}

fn hash(buf: &Buffer) -> i64 {
    let m: i64 = 2147483647;
    let mut h: i64 = 0;
    for (y, l) in buf.layers[0].lines.iter().enumerate() {
        for (x, c) in l.chars.iter().enumerate() {
            let k = ((y as i64 % m) * 131 + x as i64 + 1) % m;
            h = (h + k * ((c.ch as i64 + 1) % m)) % m;
        }
    }
    h
}

pub fn run(kind: &str, args: &[&str]) -> Option<Obs> {
    Some(match kind {
        "feed" => {
            let emu: i64 = args[0].parse().unwrap();
            let w: i32 = args[1].parse().unwrap();
            let h: i32 = args[2].parse().unwrap();
            let bytes = unhex(args[3]);
            let mut buf = Buffer::new((w, h));
            buf.is_terminal_buffer = true;
            let mut caret = Caret::default();
            let mut parser = make_parser(emu);
            let t0 = std::time::Instant::now();
            let mut errors = 0i64;
            for b in bytes {
                let ch = char::from_u32(b as u32).unwrap();
                if parser.print_char(&mut buf, 0, &mut caret, ch).is_err() {
                    errors += 1;
                }
            }
            let el = t0.elapsed().as_micros() as i64;
            let max_row = buf.layers[0].lines.iter().map(|l| l.chars.len()).max().unwrap_or(0) as i64;
            Ok(vec![el, buf.get_height() as i64, buf.layers[0].lines.len() as i64, max_row, errors, peak_rss_kb(), buf.sixel_threads.len() as i64])
        }
        "seq" => {
            let emu: i64 = args[0].parse().unwrap();
            let w: i32 = args[1].parse().unwrap();
            let h: i32 = args[2].parse().unwrap();
            let prefix = unhex(args[3]);
            let bytes = unhex(args[4]);
            let mut buf = Buffer::new((w, h));
            buf.is_terminal_buffer = true;
            let mut caret = Caret::default();
            let mut parser = make_parser(emu);
            for b in prefix {
                let _ = parser.print_char(&mut buf, 0, &mut caret, char::from_u32(b as u32).unwrap());
            }
            while let Some(hd) = buf.sixel_threads.pop_front() {
                let _ = hd.join();
            }
            let rows0 = buf.layers[0].lines.len() as i64;
            let cells0 = cells(&buf);
            let rss0 = reset_peak();
            let t0 = std::time::Instant::now();
            let mut errors = 0i64;
            for b in bytes {
                let ch = char::from_u32(b as u32).unwrap();
                if parser.print_char(&mut buf, 0, &mut caret, ch).is_err() {
                    errors += 1;
                }
            }
            let mut sixel_bytes = 0i64;
            while let Some(hd) = buf.sixel_threads.pop_front() {
                if let Ok(Ok(s)) = hd.join() {
                    sixel_bytes += s.picture_data.len() as i64;
                }
            }
            let el = t0.elapsed().as_micros() as i64;
            let growth = (peak_rss_kb() - rss0).max(0);
            let max_row = buf.layers[0].lines.iter().map(|l| l.chars.len()).max().unwrap_or(0) as i64;
            Ok(vec![
                el,
                rows0,
                buf.layers[0].lines.len() as i64,
                cells0,
                cells(&buf),
                buf.get_height() as i64,
                buf.layers[0].get_height() as i64,
                caret.get_position().x as i64,
                caret.get_position().y as i64,
                max_row,
                errors,
                growth,
                sixel_bytes,
                hash(&buf),
                -1,
                buf.terminal_state.get_width() as i64,
                buf.terminal_state.get_height() as i64,
            ])
        }
        "c03st" => {
            let emu: usize = args[0].parse().unwrap();
            let w: i32 = args[1].parse().unwrap();
            let h: i32 = args[2].parse().unwrap();
            let cut: usize = args[3].parse().unwrap();
            let bytes = unhex(args[4]);
            let mut t = crate::c09::Term::new(emu, 0, w, h);
            let rss0 = reset_peak();
            let t0 = std::time::Instant::now();
            let mut errors = 0i64;
            let mut mid: Vec<i64> = Vec::new();
            for (i, b) in bytes.iter().enumerate() {
                if i == cut {
                    mid.push(errors);
                    snap(&t, &mut mid);
                }
                if t.feed(*b) == 1 {
                    errors += 1;
                }
            }
            let mut sixel_bytes = 0i64;
            while let Some(hd) = t.buf.sixel_threads.pop_front() {
                if let Ok(Ok(s)) = hd.join() {
                    sixel_bytes += s.picture_data.len() as i64;
                }
            }
            let el = t0.elapsed().as_micros() as i64;
            let growth = (peak_rss_kb() - rss0).max(0);
            if mid.is_empty() {
                mid.push(errors);
                snap(&t, &mut mid);
            }
            let mut out = vec![el, growth, sixel_bytes];
            out.extend_from_slice(&mid);
            out.push(errors);
            snap(&t, &mut out);
            let l = &t.buf.layers[0];
            out.push(-7);
            out.push(l.lines.len().min(512) as i64);
            for ln in l.lines.iter().take(512) {
                out.push(ln.chars.len() as i64);
            }
            let tabs = t.buf.terminal_state.get_tabs();
            out.push(-8);
            out.push(tabs.len().min(512) as i64);
            for x in tabs.iter().take(512) {
                out.push(*x as i64);
            }
            Ok(out)
        }
        "load" => {
            let ext = args[0];
            let bytes = unhex(args[1]);
            let rss0 = reset_peak();
            let t0 = std::time::Instant::now();
            let name = format!("x.{ext}");
            let r = Buffer::from_bytes(Path::new(&name), true, &bytes);
            let el = t0.elapsed().as_micros() as i64;
            let growth = (peak_rss_kb() - rss0).max(0);
            match r {
                Ok(b) => {
                    let c: i64 = b.layers.iter().map(|l| l.lines.iter().map(|x| x.chars.len() as i64).sum::<i64>()).sum();
                    Ok(vec![el, b.get_width() as i64, b.get_height() as i64, b.layers.first().map_or(0, |l| l.lines.len()) as i64, 1, peak_rss_kb(), c, growth])
                }
                Err(_) => Ok(vec![el, 0, 0, 0, 0, peak_rss_kb(), 0, growth]),
            }
        }
        "c03sixel" => {
            let bytes = unhex(args[0]);
            let s: String = bytes.iter().map(|b| *b as char).collect();
            let rss0 = reset_peak();
            let t0 = std::time::Instant::now();
            let r = Sixel::parse_from(Position::default(), 1, 1, [0, 0, 0, 0], &s);
            let el = t0.elapsed().as_micros() as i64;
            let growth = (peak_rss_kb() - rss0).max(0);
            match r {
                Ok(s) => Ok(vec![el, 1, s.get_width() as i64, s.get_height() as i64, s.picture_data.len() as i64, growth]),
                Err(_) => Ok(vec![el, 0, 0, 0, 0, growth]),
            }
        }
        "font" => {
            let bytes = unhex(args[0]);
            let rss0 = reset_peak();
            let t0 = std::time::Instant::now();
            let r = BitFont::from_bytes("c03", &bytes);
            let el = t0.elapsed().as_micros() as i64;
            let growth = (peak_rss_kb() - rss0).max(0);
            match r {
                Ok(f) => Ok(vec![el, 1, f.length as i64, f.size.height as i64, growth]),
                Err(_) => Ok(vec![el, 0, 0, 0, growth]),
            }
        }
        "calib" => {
            let n: i64 = args[0].parse().unwrap();
            let mut buf = Buffer::new((80, 25));
            buf.is_terminal_buffer = true;
            let mut caret = Caret::default();
            let mut parser = make_parser(0);
            let t0 = std::time::Instant::now();
            for _ in 0..n {
                let _ = parser.print_char(&mut buf, 0, &mut caret, 'A');
            }
            Ok(vec![t0.elapsed().as_micros() as i64, buf.layers[0].lines.len() as i64])
        }
        _ => return None,
    })
}
