//! C03: resource use of one control sequence / one file.
//! `feed <emu> <w> <h> <hex bytes>` -> elapsed_us  buffer_height  lines_len  max_row_len  errors  peak_rss_kb  sixel_threads
//!     emu: 0 ansi, 1 ansi+music, 2 avatar, 3 pcboard, 4 ctrla, 5 renegade, 6 ascii, 7 petscii, 8 atascii, 9 viewdata, 10 mode7
//! `load <ext> <hex bytes>`          -> elapsed_us  width height lines_len ok(1)/err(0) peak_rss_kb
use crate::util::unhex;
use crate::Obs;
use icy_engine::{ansi, ascii, atascii, avatar, ctrla, mode7, pcboard, petscii, renegade, viewdata, Buffer, BufferParser, Caret, TextPane};
use std::path::Path;

fn peak_rss_kb() -> i64 {
    std::fs::read_to_string("/proc/self/status")
        .ok()
        .and_then(|s| s.lines().find(|l| l.starts_with("VmHWM:")).map(|l| l.split_whitespace().nth(1).unwrap_or("0").parse().unwrap_or(0)))
        .unwrap_or(0)
}

pub fn make_parser(emu: i64) -> Box<dyn BufferParser> {
    match emu {
        0 => Box::<ansi::Parser>::default(),
        1 => {
            let mut p = ansi::Parser::default();
            p.ansi_music = ansi::MusicOption::Both;
            Box::new(p)
        }
        2 => Box::<avatar::Parser>::default(),
        3 => Box::<pcboard::Parser>::default(),
        4 => Box::<ctrla::Parser>::default(),
        5 => Box::<renegade::Parser>::default(),
        6 => Box::<ascii::Parser>::default(),
        7 => Box::<petscii::Parser>::default(),
        8 => Box::<atascii::Parser>::default(),
        9 => Box::<viewdata::Parser>::default(),
        _ => Box::<mode7::Parser>::default(),
    }
}

pub fn run(kind: &str, args: &[&str]) -> Option<Obs> {
    Some(match kind {
        "feed" => {
            let emu: i64 = args[0].parse().unwrap();
            let w: i32 = args[1].parse().unwrap();
            let h: i32 = args[2].parse().unwrap();
            let bytes = unhex(args[3]);
            let mut buf = Buffer::new((w, h));
            buf.is_terminal_buffer = true;
            let mut caret = Caret::default();
            let mut parser = make_parser(emu);
            let t0 = std::time::Instant::now();
            let mut errors = 0i64;
            for b in bytes {
                let ch = char::from_u32(b as u32).unwrap();
                if parser.print_char(&mut buf, 0, &mut caret, ch).is_err() {
                    errors += 1;
                }
            }
            let el = t0.elapsed().as_micros() as i64;
            let max_row = buf.layers[0].lines.iter().map(|l| l.chars.len()).max().unwrap_or(0) as i64;
            Ok(vec![el, buf.get_height() as i64, buf.layers[0].lines.len() as i64, max_row, errors, peak_rss_kb(), buf.sixel_threads.len() as i64])
        }
        "load" => {
            let ext = args[0];
            let bytes = unhex(args[1]);
            let t0 = std::time::Instant::now();
            let name = format!("x.{ext}");
            let r = Buffer::from_bytes(Path::new(&name), true, &bytes);
            let el = t0.elapsed().as_micros() as i64;
            match r {
                Ok(b) => Ok(vec![el, b.get_width() as i64, b.get_height() as i64, b.layers.first().map_or(0, |l| l.lines.len()) as i64, 1, peak_rss_kb()]),
                Err(_) => Ok(vec![el, 0, 0, 0, 0, peak_rss_kb()]),
            }
        }
        _ => return None,
    })
}
