//! ievh: the implementation side of the correspondence / search stages.
//! Protocol: one case per stdin line `<id> <kind> <args…>`, one result per stdout line
//! `<id> ok <ints…>` | `<id> err <class>` | `<id> panic <file>:<line>`.
//! Aborts, stack overflows, timeouts and OOM are classified by the driver from the
//! way the process dies; the driver restarts the worker after the offending case.
use std::io::{BufRead, Write};
use std::panic;
use std::sync::Mutex;

mod c01;
mod c02;
mod c03;
mod c04;
mod c05;
mod c06;
mod c07;
mod c08;
mod c09;
mod c10;
mod c11;
mod c12;
mod c13;
mod c14;
mod c15;
mod c16;
mod c17;
mod c18;
mod c19;
mod c20;
mod util;

pub type Obs = Result<Vec<i64>, String>;

static LAST_PANIC: Mutex<String> = Mutex::new(String::new());

fn dispatch(kind: &str, args: &[&str]) -> Obs {
    if let Some(r) = c01::run(kind, args) {
        return r;
    }
    if let Some(r) = c02::run(kind, args) {
        return r;
    }
    if let Some(r) = c03::run(kind, args) {
        return r;
    }
    if let Some(r) = c04::run(kind, args) {
        return r;
    }
    if let Some(r) = c05::run(kind, args) {
        return r;
    }
    if let Some(r) = c06::run(kind, args) {
        return r;
    }
    if let Some(r) = c07::run(kind, args) {
        return r;
    }
    if let Some(r) = c08::run(kind, args) {
        return r;
    }
    if let Some(r) = c09::run(kind, args) {
        return r;
    }
    if let Some(r) = c10::run(kind, args) {
        return r;
    }
    if let Some(r) = c11::run(kind, args) {
        return r;
    }
    if let Some(r) = c12::run(kind, args) {
        return r;
    }
    if let Some(r) = c13::run(kind, args) {
        return r;
    }
    if let Some(r) = c14::run(kind, args) {
        return r;
    }
    if let Some(r) = c15::run(kind, args) {
        return r;
    }
    if let Some(r) = c16::run(kind, args) {
        return r;
    }
    if let Some(r) = c17::run(kind, args) {
        return r;
    }
    if let Some(r) = c18::run(kind, args) {
        return r;
    }
    if let Some(r) = c19::run(kind, args) {
        return r;
    }
    if let Some(r) = c20::run(kind, args) {
        return r;
    }
    Err(format!("unknown-kind:{kind}"))
}

fn main() {
    panic::set_hook(Box::new(|info| {
        let loc = info.location().map(|l| format!("{}:{}", l.file(), l.line())).unwrap_or_default();
        *LAST_PANIC.lock().unwrap() = loc;
    }));
    let stdin = std::io::stdin();
    let stdout = std::io::stdout();
    for line in stdin.lock().lines() {
        let Ok(line) = line else { break };
        let mut it = line.split_ascii_whitespace();
        let Some(id) = it.next() else { continue };
        let Some(kind) = it.next() else { continue };
        let args: Vec<&str> = it.collect();
        {
            // announce the case so the driver knows which one was running if we die
            let mut o = stdout.lock();
            let _ = writeln!(o, "{id} start");
            let _ = o.flush();
        }
        let res = panic::catch_unwind(|| dispatch(kind, &args));
        let mut o = stdout.lock();
        match res {
            Ok(Ok(v)) => {
                let s: Vec<String> = v.iter().map(|x| x.to_string()).collect();
                let _ = writeln!(o, "{id} ok {}", s.join(" "));
            }
            Ok(Err(e)) => {
                let _ = writeln!(o, "{id} err {}", e.replace(' ', "_"));
            }
            Err(_) => {
                let _ = writeln!(o, "{id} panic {}", LAST_PANIC.lock().unwrap());
            }
        }
        let _ = o.flush();
    }
}
