//! C10: every place where the engine turns input-derived numbers into `char`s and input bytes into
//! `String`s, driven through the public API.  A non-scalar `char` aborts the dev-profile process
//! (precondition check of char::from_u32_unchecked): the driver classifies that from the way the worker dies.
//! Every observation also carries the property's own oracle: the number of stored cells whose `ch as u32`
//! is not a scalar value and the UTF-8 validity (std::str::from_utf8 on the bytes) of every String built.
use crate::util::unhex;
use crate::Obs;
use icy_engine::{ansi, BitFont, Buffer, BufferParser, Caret, Layer, SaveOptions, TextAttribute, AttributedChar, TextPane};
use std::path::Path;

fn is_scalar(x: u32) -> bool {
    x < 0xD800 || (0xE000..0x11_0000).contains(&x)
}

fn cell_code(ch: &char) -> u32 {
    *ch as u32
}

fn str_ok(s: &str) -> i64 {
    std::str::from_utf8(s.as_bytes()).is_ok() as i64
}

/// number of cells of all layers that do not hold a scalar value
fn invalid_cells(buf: &Buffer) -> i64 {
    let mut n = 0;
    for l in &buf.layers {
        for line in &l.lines {
            for c in &line.chars {
                if !is_scalar(cell_code(&c.ch)) {
                    n += 1;
                }
            }
        }
    }
    n
}

fn invalid_strings(buf: &Buffer) -> i64 {
    let mut n = 0;
    for l in &buf.layers {
        n += 1 - str_ok(&l.properties.title);
    }
    for (_, f) in buf.font_iter() {
        n += 1 - str_ok(&f.name);
    }
    n
}

fn term(w: i32, h: i32) -> (Buffer, Caret, ansi::Parser) {
    let mut buf = Buffer::new((w, h));
    buf.is_terminal_buffer = true;
    (buf, Caret::default(), ansi::Parser::default())
}

/// feed a string; returns the number of characters the parser answered with an error
fn feed(p: &mut ansi::Parser, buf: &mut Buffer, caret: &mut Caret, s: &str) -> i64 {
    let mut errs = 0;
    for ch in s.chars() {
        if p.print_char(buf, 0, caret, ch).is_err() {
            errs += 1;
        }
    }
    errs
}

/// `CSI <text> $ x` on a fresh 80x25 terminal buffer.
/// -> [errors, char of the first non-space cell (32 if none), number of non-space cells, min x, min y, max x, max y,
///     invalid cells, rows, cols]
fn fill(text: &str) -> Vec<i64> {
    let (mut buf, mut caret, mut p) = term(80, 25);
    let errs = feed(&mut p, &mut buf, &mut caret, &format!("\x1b[{text}$x"));
    let rows = buf.get_line_count().max(buf.terminal_state.get_height()) as i64;
    let cols = buf.terminal_state.get_width() as i64;
    let (mut first, mut n, mut x0, mut y0, mut x1, mut y1) = (32i64, 0i64, i64::MAX, i64::MAX, -1i64, -1i64);
    for (y, line) in buf.layers[0].lines.iter().enumerate() {
        for (x, c) in line.chars.iter().enumerate() {
            let v = cell_code(&c.ch) as i64;
            if v != 32 {
                if n == 0 {
                    first = v;
                }
                n += 1;
                x0 = x0.min(x as i64);
                y0 = y0.min(y as i64);
                x1 = x1.max(x as i64);
                y1 = y1.max(y as i64);
            }
        }
    }
    if n == 0 {
        x0 = -1;
        y0 = -1;
    }
    vec![errs, first, n, x0, y0, x1, y1, invalid_cells(&buf), rows, cols]
}

fn layer_grid(l: &Layer, out: &mut Vec<i64>) {
    for y in 0..l.get_height() {
        for x in 0..l.get_width() {
            out.push(cell_code(&l.get_char((x, y)).ch) as i64);
        }
    }
}

fn layer_invalid(l: &Layer) -> i64 {
    l.lines.iter().flat_map(|ln| ln.chars.iter()).filter(|c| !is_scalar(cell_code(&c.ch))).count() as i64
}

/// Layer::from_clipboard_data -> [0] for None, [1, invalid cells, w, h, cells…] for Some
fn clip(data: &[u8]) -> Vec<i64> {
    match Layer::from_clipboard_data(data) {
        None => vec![0],
        Some(l) => {
            let mut v = vec![1, layer_invalid(&l), l.get_width() as i64, l.get_height() as i64];
            if (l.get_width() as i64) * (l.get_height() as i64) <= 100_000 {
                layer_grid(&l, &mut v);
            }
            v
        }
    }
}

/// all 2^16 character values of a clipboard cell record, one 1x1 layer each
/// -> [accepted, rejected, first rejected, last rejected, accepted whose stored char differs or is not a scalar]
fn clip_sweep() -> Vec<i64> {
    let (mut some, mut none, mut first, mut last, mut wrong) = (0i64, 0i64, -1i64, -1i64, 0i64);
    for v in 0..=0xFFFFu32 {
        let mut d = vec![0u8; 17];
        d[9] = 1;
        d[13] = 1;
        d.extend([(v & 255) as u8, (v >> 8) as u8, 0, 0, 0, 0, 0, 0, 0, 0, 7, 0, 0, 0]);
        match Layer::from_clipboard_data(&d) {
            None => {
                none += 1;
                if first < 0 {
                    first = v as i64;
                }
                last = v as i64;
            }
            Some(l) => {
                some += 1;
                let c = cell_code(&l.get_char((0, 0)).ch);
                if c != v || !is_scalar(c) {
                    wrong += 1;
                }
            }
        }
    }
    vec![some, none, first, last, wrong]
}

/// load an .icy file -> [1] on Err; [0, invalid cells, invalid strings, n layers, (title len, title bytes…, image?,
/// w, h, line count, cells w*h…)*, n fonts, (slot, name len, name bytes…)*]
fn icy(data: &[u8]) -> Vec<i64> {
    match Buffer::from_bytes(Path::new("a.icy"), true, data) {
        Err(e) => {
            if std::env::var("C10_DEBUG").is_ok() {
                eprintln!("load error: {e}");
            }
            vec![1]
        }
        Ok(buf) => {
            let mut v = vec![0, invalid_cells(&buf), invalid_strings(&buf), buf.layers.len() as i64];
            for l in &buf.layers {
                let t = l.properties.title.as_bytes();
                v.push(t.len() as i64);
                v.extend(t.iter().map(|b| *b as i64));
                let image = matches!(l.role, icy_engine::Role::Image);
                v.push(image as i64);
                v.push(l.get_width() as i64);
                v.push(l.get_height() as i64);
                v.push(l.lines.len() as i64);
                if !image && (l.get_width() as i64) * (l.get_height() as i64) <= 20_000 {
                    layer_grid(l, &mut v);
                }
            }
            let mut fonts: Vec<(&usize, &BitFont)> = buf.font_iter().collect();
            fonts.sort_by_key(|(k, _)| **k);
            v.push(fonts.len() as i64);
            for (k, f) in fonts {
                let t = f.name.as_bytes();
                v.push(*k as i64);
                v.push(t.len() as i64);
                v.extend(t.iter().map(|b| *b as i64));
            }
            v
        }
    }
}

/// glyph `i` of the test fonts carries its own index in its first three bytes (little endian), then 0xA5 filler;
/// fonts lower than 3 rows get a non-zero first byte instead (so that an empty glyph never equals an input glyph)
fn glyph_data(n: usize, h: usize) -> Vec<u8> {
    let mut d = Vec::with_capacity(n * h);
    for i in 0..n {
        for j in 0..h {
            d.push(match j {
                0 if h < 3 => 1 + (i % 255) as u8,
                0 => (i & 255) as u8,
                1 => ((i >> 8) & 255) as u8,
                2 => ((i >> 16) & 255) as u8,
                _ => 0xA5,
            });
        }
    }
    d
}

fn glyph_index(g: &[u8]) -> i64 {
    let mut v = 0i64;
    for (j, b) in g.iter().take(3).enumerate() {
        v |= (*b as i64) << (8 * j);
    }
    v
}

/// fonts: mode psf2 | psf1 | create8 | basic | plain; n glyphs of height h; `declared` = PSF2 header length (psf2 only;
/// -1 = n).  With declared != n the PSF2 header says charsize 0 unless declared*h + 32 == file length.
/// -> [1] on Err; [0, length, glyph count, invalid keys, keys whose glyph is not the chunk of that index,
///     max key, sum of keys mod 2^31, len(convert_to_u8_data), slots of it that differ from the input chunk,
///     len(to_psf2_bytes), slots of it that differ from the input chunk, name ok]
fn font(mode: &str, n: usize, h: usize, declared: i64) -> Vec<i64> {
    let data = glyph_data(n, h);
    let f = match mode {
        "psf2" => {
            let len = if declared < 0 { n as i64 } else { declared };
            let charsize: u32 = if len as usize * h == data.len() { h as u32 } else { 0 };
            let mut file = Vec::new();
            file.extend(0x864a_b572u32.to_le_bytes());
            file.extend(0u32.to_le_bytes());
            file.extend(32u32.to_le_bytes());
            file.extend(0u32.to_le_bytes());
            file.extend((len as u32).to_le_bytes());
            file.extend(charsize.to_le_bytes());
            file.extend((h as u32).to_le_bytes());
            file.extend(8u32.to_le_bytes());
            if charsize != 0 {
                file.extend(&data);
            }
            match BitFont::from_bytes("t", &file) {
                Ok(f) => f,
                Err(_) => return vec![1],
            }
        }
        "psf1" => {
            let mut file = vec![0x36, 0x04, 0, h as u8];
            file.extend(&data);
            match BitFont::from_bytes("t", &file) {
                Ok(f) => f,
                Err(_) => return vec![1],
            }
        }
        "plain" => match BitFont::from_bytes("t", &data) {
            Ok(f) => f,
            Err(_) => return vec![1],
        },
        "create8" => BitFont::create_8("t", 8, h as u8, &data),
        _ => BitFont::from_basic(8, h as u8, &data),
    };
    let mut invalid = 0i64;
    let mut wrong = 0i64;
    let mut maxk = -1i64;
    let mut sum = 0i64;
    for (k, g) in &f.glyphs {
        let kv = cell_code(k) as i64;
        if !is_scalar(kv as u32) {
            invalid += 1;
        }
        if h >= 3 && glyph_index(&g.data) != kv {
            wrong += 1;
        }
        maxk = maxk.max(kv);
        sum = (sum + kv) % (1 << 31);
    }
    let chunk_diff = |bytes: &[u8]| -> i64 {
        if h == 0 {
            return 0;
        }
        let mut d = 0;
        for (i, c) in bytes.chunks(h).enumerate() {
            let want = data.get(i * h..(i + 1) * h);
            if want != Some(c) {
                d += 1;
            }
        }
        d
    };
    let u8d = f.convert_to_u8_data();
    let psf = f.to_psf2_bytes().unwrap_or_default();
    let body = if psf.len() >= 32 { &psf[32..] } else { &psf[..] };
    vec![
        0,
        f.length as i64,
        f.glyphs.len() as i64,
        invalid,
        wrong,
        maxk,
        sum,
        u8d.len() as i64,
        chunk_diff(&u8d),
        psf.len() as i64,
        chunk_diff(body),
        str_ok(&f.name),
    ]
}

/// arbitrary bytes: `BitFont::from_bytes` (h < 0) or `create_8` / `from_basic` (alternating on the parity of the
/// data length) with height h.
/// -> [1] on Err; [0, length, glyph count, invalid keys, max key, sum of keys mod 2^31,
///     sum over the glyphs of (key + 1) * (1 + sum_j (j + 1) * byte_j) mod 2^31, name ok]
fn font_bytes(h: i64, data: &[u8]) -> Vec<i64> {
    let f = if h < 0 {
        match BitFont::from_bytes("t", data) {
            Ok(f) => f,
            Err(_) => return vec![1],
        }
    } else if data.len() % 2 == 0 {
        BitFont::create_8("t", 8, h as u8, data)
    } else {
        BitFont::from_basic(8, h as u8, data)
    };
    let m = 1i64 << 31;
    let (mut invalid, mut maxk, mut sum, mut content) = (0i64, -1i64, 0i64, 0i64);
    for (k, g) in &f.glyphs {
        let kv = cell_code(k) as i64;
        if !is_scalar(kv as u32) {
            invalid += 1;
        }
        maxk = maxk.max(kv);
        sum = (sum + kv) % m;
        let mut gs = 1i64;
        for (j, b) in g.data.iter().enumerate() {
            gs += (j as i64 + 1) * (*b as i64);
        }
        content = (content + (kv + 1) % m * (gs % m)) % m;
    }
    // the three `0..length` loops must run without touching a non-char
    let _ = f.convert_to_u8_data();
    let _ = f.to_psf2_bytes();
    vec![0, f.length as i64, f.glyphs.len() as i64, invalid, maxk, sum, content, str_ok(&f.name)]
}

/// `ESC P <dcs> ESC \` then `CSI 1 * z` on a 250-column terminal buffer: the macro body is printed on row 0.
/// -> [errors while defining, errors while invoking, invalid cells, caret x, the first `caret x` cells of row 0]
fn hexmacro(dcs: &str) -> Vec<i64> {
    let (mut buf, mut caret, mut p) = term(250, 25);
    let e1 = feed(&mut p, &mut buf, &mut caret, &format!("\x1bP{dcs}\x1b\\"));
    let e2 = feed(&mut p, &mut buf, &mut caret, "\x1b[1*z");
    let x = caret.get_position().x.max(0) as usize;
    let mut v = vec![e1, e2, invalid_cells(&buf), x as i64];
    if let Some(line) = buf.layers[0].lines.first() {
        v.extend(line.chars.iter().take(x).map(|c| cell_code(&c.ch) as i64));
    }
    v
}

/// any character stream through the ANSI parser -> [errors, invalid cells, cells]
fn stream(s: &str) -> Vec<i64> {
    let (mut buf, mut caret, mut p) = term(80, 25);
    let errs = feed(&mut p, &mut buf, &mut caret, s);
    let cells: usize = buf.layers.iter().map(|l| l.lines.iter().map(|ln| ln.chars.len()).sum::<usize>()).sum();
    vec![errs, invalid_cells(&buf), cells as i64]
}

/// any character stream through one of the other parsers -> [errors, invalid cells, cells]
fn other_parser(name: &str, s: &str) -> Vec<i64> {
    let mut p: Box<dyn BufferParser> = match name {
        "ascii" => Box::<icy_engine::ascii::Parser>::default(),
        "atascii" => Box::<icy_engine::atascii::Parser>::default(),
        "avatar" => Box::<icy_engine::avatar::Parser>::default(),
        "ctrla" => Box::<icy_engine::ctrla::Parser>::default(),
        "mode7" => Box::<icy_engine::mode7::Parser>::default(),
        "pcboard" => Box::<icy_engine::pcboard::Parser>::default(),
        "petscii" => Box::<icy_engine::petscii::Parser>::default(),
        "renegade" => Box::<icy_engine::renegade::Parser>::default(),
        _ => Box::<icy_engine::viewdata::Parser>::default(),
    };
    let mut buf = Buffer::new((80, 25));
    buf.is_terminal_buffer = true;
    let mut caret = Caret::default();
    let mut errs = 0;
    for ch in s.chars() {
        if p.print_char(&mut buf, 0, &mut caret, ch).is_err() {
            errs += 1;
        }
    }
    let cells: usize = buf.layers.iter().map(|l| l.lines.iter().map(|ln| ln.chars.len()).sum::<usize>()).sum();
    vec![errs, invalid_cells(&buf), cells as i64]
}

/// save/load round trips through the native format with cells chosen by the case:
/// cells = (x, y, code, attr) quadruples -> [0 saved+loaded | 1 load error, invalid cells, invalid strings]
fn icyrt(title: &str, w: i32, h: i32, cells: &[i64]) -> Vec<i64> {
    let mut buf = Buffer::new((w, h));
    buf.is_terminal_buffer = false;
    buf.layers[0].properties.title = title.to_string();
    for q in cells.chunks(4) {
        let Some(ch) = char::from_u32(q[2] as u32) else { continue };
        let mut attribute = TextAttribute::default();
        attribute.attr = q[3] as u16;
        buf.layers[0].set_char((q[0] as i32, q[1] as i32), AttributedChar { ch, attribute });
    }
    let mut opt = SaveOptions::new();
    opt.compress = false;
    let bytes = match buf.to_bytes("icy", &opt) {
        Ok(b) => b,
        Err(_) => return vec![2],
    };
    match Buffer::from_bytes(Path::new("a.icy"), true, &bytes) {
        Err(_) => vec![1],
        Ok(b) => vec![0, invalid_cells(&b), invalid_strings(&b)],
    }
}

pub fn run(kind: &str, args: &[&str]) -> Option<Obs> {
    Some(match kind {
        // the std functions the model of the String sites stands on: [from_utf8 ok, from_utf8_lossy bytes…]
        "c10utf8" => {
            let b = unhex(args[0]);
            let mut v = vec![std::str::from_utf8(&b).is_ok() as i64];
            v.extend(String::from_utf8_lossy(&b).as_bytes().iter().map(|x| *x as i64));
            Ok(v)
        }
        // char::from_u32 itself: [1, c] | [0]
        "c10char" => {
            let x: u32 = args[0].parse().unwrap();
            Ok(match char::from_u32(x) {
                Some(c) => vec![1, c as u32 as i64],
                None => vec![0],
            })
        }
        "c10fill" => Ok(fill(&String::from_utf8(unhex(args[0])).unwrap())),
        "c10clip" => Ok(clip(&unhex(args[0]))),
        "c10clipsweep" => Ok(clip_sweep()),
        "c10icy" => Ok(icy(&unhex(args[0]))),
        "c10font" => Ok(font(args[0], args[1].parse().unwrap(), args[2].parse().unwrap(), args[3].parse().unwrap())),
        "c10fontbytes" => Ok(font_bytes(args[0].parse().unwrap(), &unhex(args[1]))),
        "c10hexmacro" => Ok(hexmacro(&String::from_utf8(unhex(args[0])).unwrap())),
        "c10stream" => Ok(stream(&String::from_utf8(unhex(args[0])).unwrap())),
        "c10parser" => Ok(other_parser(args[0], &String::from_utf8(unhex(args[1])).unwrap())),
        "c10icyrt" => {
            let title = String::from_utf8(unhex(args[0])).unwrap();
            let nums: Vec<i64> = args[3..].iter().map(|s| s.parse().unwrap()).collect();
            Ok(icyrt(&title, args[1].parse().unwrap(), args[2].parse().unwrap(), &nums))
        }
        _ => return None,
    })
}
