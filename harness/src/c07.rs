//! C07: native IcyDraw (.icy) documents through the public API (see props/c07.py).
//!
//! `icydoc <flags> <spec…>`  build a document from the flat spec, save it with
//!     `Buffer::to_bytes("icy", lossles_output = true)`, reload it with `Buffer::from_bytes("t.icy")` and print
//!     `n1 obs(original)… n2 obs(reloaded)… n3 file-bytes…`  (flags bit 0: include the file bytes,
//!     bit 1: print only the file bytes, do not reload)
//! `icyload <hex>`           `Buffer::from_bytes("t.icy", bytes)` and print obs(loaded)
//!
//! The observation vector is documented in `obs` below; the python side parses it with the same grammar.
use crate::util::unhex;
use crate::Obs;
use icy_engine::{
    AttributedChar, BitFont, Buffer, BufferType, Color, FontMode, IceMode, Layer, Line, Mode, Palette, PaletteMode, Position, Role, SauceData, SauceString,
    SaveOptions, TextAttribute, TextPane,
};
use std::path::Path;

struct Tok<'a> {
    a: &'a [&'a str],
    p: usize,
}

impl<'a> Tok<'a> {
    fn s(&mut self) -> &'a str {
        let r = self.a[self.p];
        self.p += 1;
        r
    }
    fn i(&mut self) -> i64 {
        self.s().parse().unwrap()
    }
    fn b(&mut self) -> bool {
        self.i() != 0
    }
    fn utf8(&mut self) -> String {
        String::from_utf8(unhex(self.s())).unwrap()
    }
}

fn lcg_bytes(seed: u64, n: usize) -> Vec<u8> {
    let mut x = seed.wrapping_mul(6364136223846793005).wrapping_add(1442695040888963407);
    let mut v = Vec::with_capacity(n);
    for _ in 0..n {
        x = x.wrapping_mul(6364136223846793005).wrapping_add(1442695040888963407);
        v.push((x >> 33) as u8);
    }
    v
}

fn build(t: &mut Tok) -> Buffer {
    let bw = t.i() as i32;
    let bh = t.i() as i32;
    let mut buf = Buffer::new((bw, bh));
    buf.buffer_type = BufferType::from_byte(t.i() as u8);
    buf.ice_mode = IceMode::from_byte(t.i() as u8);
    buf.palette_mode = PaletteMode::from_byte(t.i() as u8);
    buf.font_mode = FontMode::from_byte(t.i() as u8);
    buf.layers.clear();
    // sauce
    if t.b() {
        let mut s = SauceData::default();
        s.title = SauceString::from(t.utf8());
        s.author = SauceString::from(t.utf8());
        s.group = SauceString::from(t.utf8());
        let n = t.i();
        for _ in 0..n {
            s.comments.push(SauceString::from(t.utf8()));
        }
        s.use_letter_spacing = t.b();
        s.use_aspect_ratio = t.b();
        s.use_ice = t.b();
        buf.set_sauce(Some(s), false);
        buf.set_size((bw, bh));
    }
    // palette
    let n = t.i();
    if n >= 0 {
        let mut cols = Vec::new();
        for _ in 0..n {
            let r = t.i() as u8;
            let g = t.i() as u8;
            let b = t.i() as u8;
            cols.push(Color::new(r, g, b));
        }
        buf.palette = Palette::from_slice(&cols);
    }
    // fonts
    let keep0 = t.b();
    if !keep0 {
        buf.remove_font(0);
    }
    let nf = t.i();
    for _ in 0..nf {
        let slot = t.i() as usize;
        let name = t.utf8();
        let kind = t.i();
        let a = t.i();
        let b = t.i();
        let c = t.i();
        let font = match kind {
            0 => {
                let mut f = BitFont::from_ansi_font_page(a as usize).unwrap();
                f.name = name;
                f
            }
            _ => BitFont::create_8(name, a as u8, b as u8, &lcg_bytes(c as u64, 256 * b as usize)),
        };
        buf.set_font(slot, font);
    }
    // layers
    let nl = t.i();
    for _ in 0..nl {
        let title = t.utf8();
        let role = t.i();
        let mode = t.i();
        let has_color = t.b();
        let (r, g, b) = (t.i() as u8, t.i() as u8, t.i() as u8);
        let vis = t.b();
        let locked = t.b();
        let pos_locked = t.b();
        let alpha = t.b();
        let alpha_locked = t.b();
        let transparency = t.i() as u8;
        let ox = t.i() as i32;
        let oy = t.i() as i32;
        let w = t.i() as i32;
        let h = t.i() as i32;
        let dfp = t.i() as usize;
        let has_preview = t.b();
        let (px, py) = (t.i() as i32, t.i() as i32);
        let mut layer = Layer::new(title, (w, h));
        layer.role = match role {
            0 => Role::Normal,
            1 => Role::PastePreview,
            2 => Role::PasteImage,
            _ => Role::Image,
        };
        layer.properties.mode = match mode {
            0 => Mode::Normal,
            1 => Mode::Chars,
            _ => Mode::Attributes,
        };
        if has_color {
            layer.properties.color = Some(Color::new(r, g, b));
        }
        layer.set_offset((ox, oy));
        layer.transparency = transparency;
        layer.default_font_page = dfp;
        if has_preview {
            layer.set_preview_offset(Some(Position::new(px, py)));
        }
        let nrows = t.i();
        let mut lines = Vec::new();
        for _ in 0..nrows {
            let nc = t.i();
            let mut line = Line::with_capacity(nc as i32);
            for _ in 0..nc {
                let ch = char::from_u32(t.i() as u32).unwrap();
                let fg = t.i() as u32;
                let bg = t.i() as u32;
                let page = t.i() as usize;
                let attr = t.i() as u16;
                let mut a = TextAttribute::new(fg, bg);
                a.set_font_page(page);
                a.attr = attr;
                line.chars.push(AttributedChar::new(ch, a));
            }
            lines.push(line);
        }
        layer.lines = lines;
        layer.properties.is_visible = vis;
        layer.properties.is_locked = locked;
        layer.properties.is_position_locked = pos_locked;
        layer.properties.has_alpha_channel = alpha;
        layer.properties.is_alpha_channel_locked = alpha_locked;
        buf.layers.push(layer);
    }
    buf
}

fn push_str(v: &mut Vec<i64>, s: &str) {
    let b = s.as_bytes();
    v.push(b.len() as i64);
    v.extend(b.iter().map(|x| *x as i64));
}

fn push_chars(v: &mut Vec<i64>, s: &str) {
    let c: Vec<char> = s.chars().collect();
    v.push(c.len() as i64);
    v.extend(c.iter().map(|x| *x as i64));
}

fn font_hash(f: &BitFont) -> (i64, i64) {
    // FNV-1a over the glyph bytes of the codes 0..length (missing glyph = the marker byte 0xA5 and a count)
    let mut h: u64 = 0xcbf29ce484222325;
    let mut missing = 0;
    for ch in 0..f.length.max(0) as u32 {
        match char::from_u32(ch).and_then(|c| f.get_glyph(c)) {
            Some(g) => {
                for b in &g.data {
                    h = (h ^ *b as u64).wrapping_mul(0x100000001b3);
                }
                h = (h ^ 0x1FF).wrapping_mul(0x100000001b3);
            }
            None => missing += 1,
        }
    }
    ((h >> 2) as i64, missing)
}

/// bw bh buffer_type ice palette_mode font_mode
/// has_sauce [title author group (as code points) ncomments comments… letter aspect ice data_type file_type sw sh has_font font]
/// ncolors (r g b)…
/// nfonts (slot name w h length hash missing)…   sorted by slot
/// nlayers (title role mode has_color r g b vis locked pos_locked alpha alpha_locked transparency ox oy base_ox base_oy w h dfp
///          nsixels nlines (ncells (ch fg bg page attr)…)…)…
fn obs(buf: &Buffer) -> Vec<i64> {
    let mut v = Vec::new();
    v.push(buf.get_width() as i64);
    v.push(buf.get_height() as i64);
    v.push(buf.buffer_type.to_byte() as i64);
    v.push(buf.ice_mode.to_byte() as i64);
    v.push(buf.palette_mode.to_byte() as i64);
    v.push(buf.font_mode.to_byte() as i64);
    match buf.get_sauce() {
        None => v.push(0),
        Some(s) => {
            v.push(1);
            push_chars(&mut v, &s.title.to_string());
            push_chars(&mut v, &s.author.to_string());
            push_chars(&mut v, &s.group.to_string());
            v.push(s.comments.len() as i64);
            for c in &s.comments {
                push_chars(&mut v, &c.to_string());
            }
            v.push(s.use_letter_spacing as i64);
            v.push(s.use_aspect_ratio as i64);
            v.push(s.use_ice as i64);
            v.push(s.data_type.clone() as u8 as i64);
            v.push(s.sauce_file_type as u8 as i64);
            v.push(s.buffer_size.width as i64);
            v.push(s.buffer_size.height as i64);
            match &s.font_opt {
                None => v.push(0),
                Some(f) => {
                    v.push(1);
                    push_chars(&mut v, f);
                }
            }
        }
    }
    v.push(buf.palette.len() as i64);
    for i in 0..buf.palette.len() {
        let (r, g, b) = buf.palette.get_rgb(i as u32);
        v.extend([r as i64, g as i64, b as i64]);
    }
    let mut slots: Vec<usize> = buf.font_iter().map(|(k, _)| *k).collect();
    slots.sort_unstable();
    v.push(slots.len() as i64);
    for k in slots {
        let f = buf.get_font(k).unwrap();
        v.push(k as i64);
        push_str(&mut v, &f.name);
        v.push(f.size.width as i64);
        v.push(f.size.height as i64);
        v.push(f.length as i64);
        let (h, m) = font_hash(f);
        v.push(h);
        v.push(m);
    }
    v.push(buf.layers.len() as i64);
    for l in &buf.layers {
        push_str(&mut v, &l.properties.title);
        v.push(match l.role {
            Role::Normal => 0,
            Role::PastePreview => 1,
            Role::PasteImage => 2,
            Role::Image => 3,
        });
        v.push(match l.properties.mode {
            Mode::Normal => 0,
            Mode::Chars => 1,
            Mode::Attributes => 2,
        });
        match &l.properties.color {
            None => v.extend([0, 0, 0, 0]),
            Some(c) => {
                let (r, g, b) = c.get_rgb();
                v.extend([1, r as i64, g as i64, b as i64]);
            }
        }
        v.push(l.properties.is_visible as i64);
        v.push(l.properties.is_locked as i64);
        v.push(l.properties.is_position_locked as i64);
        v.push(l.properties.has_alpha_channel as i64);
        v.push(l.properties.is_alpha_channel_locked as i64);
        v.push(l.transparency as i64);
        v.push(l.get_offset().x as i64);
        v.push(l.get_offset().y as i64);
        v.push(l.properties.offset.x as i64);
        v.push(l.properties.offset.y as i64);
        v.push(l.get_width() as i64);
        v.push(l.get_height() as i64);
        v.push(l.default_font_page as i64);
        v.push(l.sixels.len() as i64);
        v.push(l.lines.len() as i64);
        for line in &l.lines {
            v.push(line.chars.len() as i64);
            for c in &line.chars {
                v.push(c.ch as u32 as i64);
                v.push(c.attribute.get_foreground() as i64);
                v.push(c.attribute.get_background() as i64);
                v.push(c.attribute.get_font_page() as i64);
                v.push(c.attribute.attr as i64);
            }
        }
    }
    v
}

fn cls(e: &anyhow::Error) -> String {
    // error classes, not messages
    let s = format!("{e}").to_lowercase();
    let known = [
        ("unsupported header size", "header-size"),
        ("data length out ouf bounds", "length"),
        ("unsupported layer mode", "layer-mode"),
        ("error while parsing font slot", "font-slot"),
        ("invalid character code", "invalid-char"),
        ("error while encoding ztext chunk", "ztxt"),
        ("png", "png"),
    ];
    for (k, c) in known {
        if s.contains(k) {
            return c.to_string();
        }
    }
    let w: String = s.chars().take(40).map(|c| if c.is_ascii_alphanumeric() { c } else { '_' }).collect();
    format!("other:{w}")
}

pub fn run(kind: &str, args: &[&str]) -> Option<Obs> {
    Some(match kind {
        "icydoc" => {
            let mut t = Tok { a: args, p: 0 };
            let flags = t.i();
            let buf = build(&mut t);
            let mut opt = SaveOptions::new();
            opt.lossles_output = true;
            let bytes = match buf.to_bytes("icy", &opt) {
                Ok(b) => b,
                Err(e) => return Some(Err(format!("save:{}", cls(&e)))),
            };
            let mut out = Vec::new();
            if flags & 2 == 0 {
                let o1 = obs(&buf);
                let re = match Buffer::from_bytes(Path::new("t.icy"), true, &bytes) {
                    Ok(b) => b,
                    Err(e) => return Some(Err(format!("load:{}", cls(&e)))),
                };
                let o2 = obs(&re);
                out.push(o1.len() as i64);
                out.extend(o1);
                out.push(o2.len() as i64);
                out.extend(o2);
            } else {
                out.extend([0, 0]);
            }
            if flags & 3 != 0 {
                out.push(bytes.len() as i64);
                out.extend(bytes.iter().map(|x| *x as i64));
            } else {
                out.push(0);
            }
            Ok(out)
        }
        "icyload" => {
            let bytes = unhex(args[0]);
            match Buffer::from_bytes(Path::new("t.icy"), true, &bytes) {
                Ok(b) => Ok(obs(&b)),
                Err(e) => Err(format!("load:{}", cls(&e))),
            }
        }
        _ => return None,
    })
}
