//! C06: XBin compression — implementation-side case runners (see props/c06.py).
//!
//! `xb <ice> <lossless> <sauce> <w> <h> <cells>`
//!     ice: 0 Unlimited, 1 Blink, 2 Ice;  cells: w*h records of 6 bytes (hex): ch_hi ch_lo fg bg attr_lo page
//!     Builds a one-layer buffer through the public API, saves it with compress=true and compress=false through
//!     `Buffer::to_bytes("xb", …)`, loads both files through `Buffer::from_bytes`.
//!     Observation: [sc, su] save status (0 ok, 1 Err) and, when both are ok,
//!       lc, lu (load status), then for the compressed file: width, height of the loaded buffer, n, data section bytes…,
//!       w*h*5 loaded cells (ch fg bg attr page); the same for the uncompressed file.
//!     The data section is everything after header / palette / font(s), sizes computed from the header flags.
//! `xbattr <ice> <nfonts>`   exhaustive sweep of encode_attr (through the uncompressed writer) over fg,bg 0..=15,
//!     bold, blink, page 0/1 (page 1 only when nfonts=2): one data byte per combination.
//! `xbdec <ice> <ext>`       exhaustive sweep of decode_char (through the uncompressed loader) over the 256 attribute
//!     bytes: (fg bg attr page) per byte.
use crate::util::{int, unhex};
use crate::Obs;
use icy_engine::{AttributedChar, BitFont, Buffer, IceMode, SaveOptions, TextAttribute, TextPane};
use std::path::Path;

fn ice_of(i: i64) -> IceMode {
    match i {
        0 => IceMode::Unlimited,
        1 => IceMode::Blink,
        _ => IceMode::Ice,
    }
}

fn data_offset(b: &[u8]) -> usize {
    let font_h = if b[9] == 0 { 16 } else { b[9] as usize };
    let flags = b[10];
    let mut o = 11;
    if flags & 1 != 0 {
        o += 48;
    }
    if flags & 2 != 0 {
        o += 256 * font_h;
        if flags & 16 != 0 {
            o += 256 * font_h;
        }
    }
    o
}

fn make_buffer(ice: i64, w: i32, h: i32, cells: &[u8]) -> Buffer {
    let mut buf = Buffer::new((w, h));
    buf.ice_mode = ice_of(ice);
    let mut i = 0;
    for y in 0..h {
        for x in 0..w {
            let c = &cells[i..i + 6];
            i += 6;
            let code = ((c[0] as u32) << 8) | c[1] as u32;
            let mut attr = TextAttribute::new(c[2] as u32, c[3] as u32);
            attr.attr = c[4] as u16;
            attr.set_font_page(c[5] as usize);
            if c[5] != 0 && buf.get_font(c[5] as usize).is_none() {
                buf.set_font(c[5] as usize, BitFont::default());
            }
            buf.layers[0].set_char((x, y), AttributedChar::new(char::from_u32(code).unwrap(), attr));
        }
    }
    buf
}

fn dump_loaded(out: &mut Vec<i64>, b: &Buffer, w: i32, h: i32) {
    for y in 0..h {
        for x in 0..w {
            let ch = b.layers[0].get_char((x, y));
            out.push(ch.ch as i64);
            out.push(ch.attribute.get_foreground() as i64);
            out.push(ch.attribute.get_background() as i64);
            out.push(ch.attribute.attr as i64);
            out.push(ch.attribute.get_font_page() as i64);
        }
    }
}

pub fn run(kind: &str, args: &[&str]) -> Option<Obs> {
    Some(match kind {
        "xb" => {
            let ice = int(args[0]);
            let lossless = int(args[1]) != 0;
            let sauce = int(args[2]) != 0;
            let w = int(args[3]) as i32;
            let h = int(args[4]) as i32;
            let cells = unhex(args[5]);
            let buf = make_buffer(ice, w, h, &cells);
            let mut opt = SaveOptions::default();
            opt.lossles_output = lossless;
            opt.save_sauce = sauce;
            opt.compress = true;
            let rc = buf.to_bytes("xb", &opt);
            opt.compress = false;
            let ru = buf.to_bytes("xb", &opt);
            let mut out = vec![rc.is_err() as i64, ru.is_err() as i64];
            if let (Ok(bc), Ok(bu)) = (rc, ru) {
                let lc = Buffer::from_bytes(Path::new("c.xb"), false, &bc);
                let lu = Buffer::from_bytes(Path::new("u.xb"), false, &bu);
                out.push(lc.is_err() as i64);
                out.push(lu.is_err() as i64);
                for (bytes, l) in [(&bc, &lc), (&bu, &lu)] {
                    if let Ok(b) = l {
                        out.push(b.get_width() as i64);
                        out.push(b.get_height() as i64);
                    } else {
                        out.push(-1);
                        out.push(-1);
                    }
                    let d = &bytes[data_offset(bytes)..];
                    out.push(d.len() as i64);
                    out.extend(d.iter().map(|x| *x as i64));
                    if let Ok(b) = l {
                        dump_loaded(&mut out, b, w, h);
                    }
                }
            }
            Ok(out)
        }
        "xbattr" => {
            let ice = int(args[0]);
            let nfonts = int(args[1]);
            // one row of 16*16*2*2*pages cells; with nfonts=2 the row holds page-0 and page-1 cells, so both fonts are in use
            let pages: i64 = if nfonts == 2 { 2 } else { 1 };
            let mut cells = Vec::new();
            for page in 0..pages {
                for bold in 0..2u8 {
                    for blink in 0..2u8 {
                        for bg in 0..16u8 {
                            for fg in 0..16u8 {
                                cells.extend_from_slice(&[0, 65, fg, bg, bold | (blink << 3), page as u8]);
                            }
                        }
                    }
                }
            }
            let n = (cells.len() / 6) as i32;
            let buf = make_buffer(ice, n, 1, &cells);
            let mut opt = SaveOptions::default();
            opt.lossles_output = true;
            opt.save_sauce = false;
            opt.compress = false;
            match buf.to_bytes("xb", &opt) {
                Ok(b) => {
                    let d = &b[data_offset(&b)..];
                    Ok((0..n as usize).map(|i| d[2 * i + 1] as i64).collect())
                }
                Err(e) => Err(format!("save:{e}")),
            }
        }
        "xbdec" => {
            let ice = int(args[0]);
            let ext = int(args[1]) != 0;
            // hand-made uncompressed file: 256x1, flags from the arguments, default font block(s) when ext
            let mut f = b"XBIN\x1a".to_vec();
            f.extend_from_slice(&[0, 1, 1, 0, 16]);
            let mut flags = 0u8;
            if ice == 2 {
                flags |= 8;
            }
            if ext {
                flags |= 2 | 16;
            }
            f.push(flags);
            if ext {
                f.extend(std::iter::repeat(0u8).take(2 * 256 * 16));
            }
            for a in 0..256u32 {
                f.push(66);
                f.push(a as u8);
            }
            match Buffer::from_bytes(Path::new("d.xb"), false, &f) {
                Ok(b) => {
                    let mut out = Vec::new();
                    for x in 0..256 {
                        let ch = b.layers[0].get_char((x, 0));
                        out.push(ch.attribute.get_foreground() as i64);
                        out.push(ch.attribute.get_background() as i64);
                        out.push(ch.attribute.attr as i64);
                        out.push(ch.attribute.get_font_page() as i64);
                    }
                    Ok(out)
                }
                Err(e) => Err(format!("load:{e}")),
            }
        }
        _ => return None,
    })
}
