//! C05: binary art formats (BIN, XBin, ADF, IDF, Tundra) through `Buffer::to_bytes` / `Buffer::from_bytes`
//! (see props/c05.py).
//!
//! A picture is passed as
//!   `<fmt> <compress 0|1> <sauce 0|1> <w> <h> <mode 0|1|2> <cells> <palette> <fonts>`
//!   cells   : hex, 9 bytes per cell in row-major order: ch_hi, ch_lo, fg_hi, fg_lo, bg_hi, bg_lo, attr_hi, attr_lo, page
//!             or `@seed,chmod,fgn,bgn,flagmask,pages` (cells computed from the cell index by `mix`, the same
//!             function exists in props/c05.py)
//!   palette : `-` (DOS default, as Buffer::new makes it) or hex, 3 bytes per colour
//!   fonts   : `-` (font table as Buffer::new makes it) or `slot:height:data[,slot:height:data…]` with data = hex
//!             (256*height bytes) or `@k` (byte i = pat_font(k, i))
//! Kinds
//!   c5rt     <picture>        save, load the bytes:  [1, n, bytes…, <load>] | [0] when saving fails
//!   c5save   <picture>        [1, n, bytes…] | [0]
//!   c5load   <fmt> <hex>      <load>
//!   c5resave <fmt> <compress> <sauce> <hex>   load, save again, load:  <load> ++ ([1, n, bytes…, <load>] | [0]) (nothing after a failed first load;
//!                                             [-1] when the first load panics)
//!   <load> = [0] when loading fails, else [1] ++ observation:
//!     w, h, ice_mode, layer_w, layer_h, line_count, palette_mode, font_mode,
//!     npal, (r,g,b)*, nfonts, (slot, fw, fh, length, ndata, data…)* by ascending slot,
//!     then for y < h, x < w of Buffer::get_char: ch, fg, bg, attr, page
use crate::util::unhex;
use crate::Obs;
use icy_engine::{AttributedChar, BitFont, Buffer, Color, IceMode, Palette, SaveOptions, TextAttribute, TextPane};
use std::path::PathBuf;

fn u(s: &str) -> u64 {
    s.parse().unwrap()
}

pub fn mix(seed: u32, i: u32) -> u32 {
    let mut x = seed ^ i.wrapping_mul(0x9E37_79B1);
    x ^= x >> 16;
    x = x.wrapping_mul(0x85EB_CA6B);
    x ^= x >> 13;
    x = x.wrapping_mul(0xC2B2_AE35);
    x ^= x >> 16;
    x
}

pub fn pat_font(k: u32, i: u32) -> u8 {
    ((i.wrapping_mul(k).wrapping_add(i / 7).wrapping_add(k)) & 255) as u8
}

struct Cell {
    ch: u32,
    fg: u32,
    bg: u32,
    attr: u16,
    page: usize,
}

fn cells(spec: &str, n: usize) -> Vec<Cell> {
    let mut out = Vec::with_capacity(n);
    if let Some(rest) = spec.strip_prefix('@') {
        let p: Vec<u32> = rest.split(',').map(|x| x.parse().unwrap()).collect();
        let (seed, chmod, fgn, bgn, mask, pages) = (p[0], p[1], p[2], p[3], p[4], p[5]);
        for i in 0..n as u32 {
            let a = mix(seed, i);
            let b = mix(seed ^ 0x5bd1_e995, i);
            out.push(Cell {
                ch: match chmod {
                    0 => a & 255,
                    1 => (a & 255) % 7,          // the Tundra / IDF command bytes and 0
                    2 => if a & 3 == 0 { a >> 8 & 255 } else { 65 + (i / 5 % 3) }, // runs
                    _ => 32 + (a % 95),
                },
                fg: (a >> 8) % fgn,
                bg: (a >> 20) % bgn,
                attr: (b & mask) as u16,
                page: ((b >> 16) % pages) as usize,
            });
        }
    } else {
        let b = unhex(spec);
        assert!(b.len() == 9 * n, "cells: {} bytes for {} cells", b.len(), n);
        for c in b.chunks(9) {
            out.push(Cell {
                ch: (c[0] as u32) << 8 | c[1] as u32,
                fg: (c[2] as u32) << 8 | c[3] as u32,
                bg: (c[4] as u32) << 8 | c[5] as u32,
                attr: (c[6] as u16) << 8 | c[7] as u16,
                page: c[8] as usize,
            });
        }
    }
    out
}

fn build(args: &[&str]) -> (String, SaveOptions, Buffer) {
    let fmt = args[0].to_string();
    let mut opt = SaveOptions::new();
    opt.compress = args[1] == "1";
    opt.save_sauce = args[2] == "1";
    opt.lossles_output = true;
    let (w, h) = (u(args[3]) as i32, u(args[4]) as i32);
    let mut buf = Buffer::new((w, h));
    buf.ice_mode = IceMode::from_byte(u(args[5]) as u8);
    if args[7] != "-" {
        let p = unhex(args[7]);
        let cols: Vec<Color> = p.chunks(3).map(|c| Color::new(c[0], c[1], c[2])).collect();
        buf.palette = Palette::from_slice(&cols);
    }
    if args[8] != "-" {
        for f in args[8].split(',') {
            let p: Vec<&str> = f.split(':').collect();
            let (slot, fh) = (u(p[0]) as usize, u(p[1]) as usize);
            let data: Vec<u8> = if let Some(k) = p[2].strip_prefix('@') {
                let k: u32 = k.parse().unwrap();
                (0..256 * fh as u32).map(|i| pat_font(k, i)).collect()
            } else {
                unhex(p[2])
            };
            buf.set_font(slot, BitFont::create_8(format!("verif font {slot}"), 8, fh as u8, &data));
        }
    }
    let cs = cells(args[6], (w * h) as usize);
    let mut i = 0;
    for y in 0..h {
        for x in 0..w {
            let c = &cs[i];
            i += 1;
            let mut a = TextAttribute::new(c.fg, c.bg);
            a.attr = c.attr;
            a.set_font_page(c.page);
            buf.layers[0].set_char((x, y), AttributedChar::new(char::from_u32(c.ch).unwrap(), a));
        }
    }
    (fmt, opt, buf)
}

fn observe(v: &mut Vec<i64>, buf: &Buffer) -> Result<(), String> {
    let (w, h) = (buf.get_width(), buf.get_height());
    if (w as i64) * (h as i64) > 2_000_000 || w < 0 || h < 0 {
        return Err(format!("picture-too-large-{w}x{h}"));
    }
    v.push(w as i64);
    v.push(h as i64);
    v.push(buf.ice_mode.to_byte() as i64);
    v.push(buf.layers[0].get_width() as i64);
    v.push(buf.layers[0].get_height() as i64);
    v.push(buf.layers[0].lines.len() as i64);
    v.push(buf.palette_mode.to_byte() as i64);
    v.push(buf.font_mode.to_byte() as i64);
    v.push(buf.palette.len() as i64);
    for i in 0..buf.palette.len() {
        let (r, g, b) = buf.palette.get_rgb(i as u32);
        v.extend([r as i64, g as i64, b as i64]);
    }
    let mut slots: Vec<usize> = buf.font_iter().map(|(k, _)| *k).collect();
    slots.sort_unstable();
    v.push(slots.len() as i64);
    for s in slots {
        let f = buf.get_font(s).unwrap();
        let d = f.convert_to_u8_data();
        v.extend([s as i64, f.size.width as i64, f.size.height as i64, f.length as i64, d.len() as i64]);
        v.extend(d.iter().map(|x| *x as i64));
    }
    for y in 0..h {
        for x in 0..w {
            let c = buf.get_char((x, y));
            v.extend([c.ch as i64, c.attribute.get_foreground() as i64, c.attribute.get_background() as i64, c.attribute.attr as i64, c.get_font_page() as i64]);
        }
    }
    Ok(())
}

fn load(v: &mut Vec<i64>, fmt: &str, bytes: &[u8]) -> Result<Option<Buffer>, String> {
    match Buffer::from_bytes(&PathBuf::from(format!("verif.{fmt}")), true, bytes) {
        Ok(b) => {
            v.push(1);
            observe(v, &b)?;
            Ok(Some(b))
        }
        Err(_) => {
            v.push(0);
            Ok(None)
        }
    }
}

fn save(v: &mut Vec<i64>, fmt: &str, opt: &SaveOptions, buf: &Buffer) -> Option<Vec<u8>> {
    match buf.to_bytes(fmt, opt) {
        Ok(b) => {
            v.push(1);
            v.push(b.len() as i64);
            v.extend(b.iter().map(|x| *x as i64));
            Some(b)
        }
        Err(_) => {
            v.push(0);
            None
        }
    }
}

pub fn run(kind: &str, args: &[&str]) -> Option<Obs> {
    let mut v: Vec<i64> = Vec::new();
    match kind {
        "c5rt" | "c5save" => {
            let (fmt, opt, buf) = build(args);
            if let Some(bytes) = save(&mut v, &fmt, &opt, &buf) {
                if kind == "c5rt" {
                    if let Err(e) = load(&mut v, &fmt, &bytes) {
                        return Some(Err(e));
                    }
                }
            }
        }
        "c5load" => {
            if let Err(e) = load(&mut v, args[0], &unhex(args[1])) {
                return Some(Err(e));
            }
        }
        "c5resave" => {
            let fmt = args[0];
            let mut opt = SaveOptions::new();
            opt.compress = args[1] == "1";
            opt.save_sauce = args[2] == "1";
            opt.lossles_output = true;
            // a loader that panics on this file did not accept it (that is property C02's subject): [-1]
            let bytes = unhex(args[3]);
            let first = std::panic::catch_unwind(|| {
                let mut v1: Vec<i64> = Vec::new();
                let r = load(&mut v1, fmt, &bytes);
                (v1, r)
            });
            let Ok((v1, first)) = first else {
                return Some(Ok(vec![-1]));
            };
            v.extend(v1);
            match first {
                Err(e) => return Some(Err(e)),
                Ok(None) => {}
                Ok(Some(buf)) => {
                    if let Some(bytes) = save(&mut v, fmt, &opt, &buf) {
                        if let Err(e) = load(&mut v, fmt, &bytes) {
                            return Some(Err(e));
                        }
                    }
                }
            }
        }
        _ => return None,
    }
    Some(Ok(v))
}
