//! C12: ColorOptimizer::optimize and Buffer::render_to_rgba on documents described by the case (props/c12.py).
//! doc := w h term  nslots {slot ansi_page}*  nextra {r g b}*  nlayers { visible alpha offx offy lw lh nset { x y ch fg bg attr page }* }*
//! `opt <norm> doc`     -> w h  then per cell (row-major) the composite cell of the document (ch fg bg attr page)
//!                          then per cell the raw cell of the optimised buffer's layer 0
//! `rend <norm> doc`    -> eq(0/1) pw ph pw2 ph2  then the RGBA bytes of render_to_rgba(optimised)
//! `rendeq <norm> doc`  -> eq(0/1) pw ph pw2 ph2 first_differing_byte_index(-1)
//! `fontdump <k>`       -> w h n {packed rows as bytes…}: k < 100 ansi font page k; 100.. sauce font k-100; 99 viewdata
use crate::Obs;
use icy_engine::{AttributedChar, BitFont, Buffer, ColorOptimizer, Layer, Rectangle, SaveOptions, TextAttribute, TextPane};

struct Rd<'a> {
    a: &'a [&'a str],
    i: usize,
}
impl<'a> Rd<'a> {
    fn next(&mut self) -> i64 {
        let v: i64 = self.a[self.i].parse().unwrap();
        self.i += 1;
        v
    }
}

fn build(r: &mut Rd) -> Buffer {
    let w = r.next() as i32;
    let h = r.next() as i32;
    let term = r.next() != 0;
    let mut buf = Buffer::new((w, h));
    buf.is_terminal_buffer = term;
    buf.layers.clear();
    for _ in 0..r.next() {
        let slot = r.next() as usize;
        let page = r.next() as usize;
        buf.set_font(slot, BitFont::from_ansi_font_page(page).unwrap());
    }
    for _ in 0..r.next() {
        let (cr, cg, cb) = (r.next() as u8, r.next() as u8, r.next() as u8);
        buf.palette.insert_color_rgb(cr, cg, cb);
    }
    for _ in 0..r.next() {
        let visible = r.next() != 0;
        let alpha = r.next() != 0;
        let offx = r.next() as i32;
        let offy = r.next() as i32;
        let lw = r.next() as i32;
        let lh = r.next() as i32;
        let mut l = Layer::new("l", (lw, lh));
        for _ in 0..r.next() {
            let x = r.next() as i32;
            let y = r.next() as i32;
            let ch = r.next() as u32;
            let mut a = TextAttribute::new(r.next() as u32, r.next() as u32);
            a.attr = r.next() as u16;
            a.set_font_page(r.next() as usize);
            l.set_char((x, y), AttributedChar::new(char::from_u32(ch).unwrap(), a));
        }
        l.properties.has_alpha_channel = alpha;
        l.set_offset((offx, offy));
        l.properties.is_visible = visible;
        buf.layers.push(l);
    }
    buf
}

fn push_cell(out: &mut Vec<i64>, c: AttributedChar) {
    out.push(c.ch as u32 as i64);
    out.push(c.attribute.get_foreground() as i64);
    out.push(c.attribute.get_background() as i64);
    out.push(c.attribute.attr as i64);
    out.push(c.attribute.get_font_page() as i64);
}

fn optimise(buf: &Buffer, norm: bool) -> Buffer {
    let mut o = SaveOptions::default();
    o.normalize_whitespaces = norm;
    ColorOptimizer::new(buf, &o).optimize(buf)
}

pub fn run(kind: &str, args: &[&str]) -> Option<Obs> {
    Some(match kind {
        "opt" => {
            let mut r = Rd { a: args, i: 0 };
            let norm = r.next() != 0;
            let buf = build(&mut r);
            let opt = optimise(&buf, norm);
            let mut out = vec![buf.get_width() as i64, buf.get_height() as i64];
            for y in 0..buf.get_height() {
                for x in 0..buf.get_width() {
                    push_cell(&mut out, buf.get_char((x, y)));
                }
            }
            out.push(opt.layers.len() as i64);
            out.push(opt.get_width() as i64);
            out.push(opt.get_height() as i64);
            for y in 0..opt.get_height() {
                for x in 0..opt.get_width() {
                    push_cell(&mut out, opt.layers[0].get_char((x, y)));
                }
            }
            Ok(out)
        }
        "rend" | "rendeq" => {
            let mut r = Rd { a: args, i: 0 };
            let norm = r.next() != 0;
            let buf = build(&mut r);
            let opt = optimise(&buf, norm);
            let rect = Rectangle::from_min_size((0, 0), (buf.get_width(), buf.get_height()));
            let (s1, p1) = buf.render_to_rgba(rect);
            let rect2 = Rectangle::from_min_size((0, 0), (opt.get_width(), opt.get_height()));
            let (s2, p2) = opt.render_to_rgba(rect2);
            let mut out = vec![(p1 == p2) as i64, s1.width as i64, s1.height as i64, s2.width as i64, s2.height as i64];
            if kind == "rend" {
                out.extend(p2.iter().map(|b| *b as i64));
            } else {
                let d = p1.iter().zip(p2.iter()).position(|(a, b)| a != b).map_or(-1, |i| i as i64);
                out.push(d);
            }
            Ok(out)
        }
        "fontdump" => {
            let k: usize = args[0].parse().unwrap();
            let f = if k == 99 {
                BitFont::from_bytes("viewdata", icy_engine::VIEWDATA).unwrap()
            } else if k < 99 {
                BitFont::from_ansi_font_page(k).unwrap()
            } else {
                BitFont::from_sauce_name(icy_engine::SAUCE_FONT_NAMES[k - 100]).unwrap()
            };
            let mut out = vec![f.size.width as i64, f.size.height as i64, f.glyphs.len() as i64];
            for c in 0..f.glyphs.len() as u32 {
                match f.get_glyph(char::from_u32(c).unwrap()) {
                    Some(g) => {
                        out.push(g.data.len() as i64);
                        out.extend(g.data.iter().map(|b| *b as i64));
                    }
                    None => out.push(-1),
                }
            }
            Ok(out)
        }
        _ => return None,
    })
}
