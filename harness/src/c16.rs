//! C16: palette index laws, 6-bit VGA codec, palette file export/import through the public API
//! (`Palette`, `Color`, `PaletteFormat`, `from_ega_data`, `to_ega_data`).  See props/c16.py.
//!
//! Kinds (all prefixed `pal_`):
//!   pal_ops    <init rgb hex> <op>*          state-by-state observation of an operation sequence
//!   pal_oracle <init rgb hex> <op>*          the property's own oracle on the same sequence
//!   pal_exp    <fmt> <title> <author> <desc> <rgb hex> <idx,name>*   export bytes + colours loaded back
//!   pal_load   <fmt> <bytes hex>             load_palette on arbitrary bytes
//!   pal_63 / pal_v63 / pal_egaf / pal_egat   6-bit codec entry points
//!   pal_sweep63 <0|1>                        channel sweeps / all 64^3 six-bit colours
//! Op tokens: i,RRGGBB  n,RRGGBB,<name hex>  s,idx,RRGGBB  c,idx,RRGGBB,<name hex|~>  l,idx  p,RRGGBB  f  z,n  x
use crate::util::unhex;
use crate::Obs;
use icy_engine::{from_ega_data, to_ega_data, Color, Palette, PaletteFormat};

fn rgb_of(s: &str) -> (u8, u8, u8) {
    let b = unhex(s);
    (b[0], b[1], b[2])
}

fn utf8(s: &str) -> String {
    String::from_utf8(unhex(s)).unwrap()
}

fn pack(c: (u8, u8, u8)) -> i64 {
    ((c.0 as i64) << 16) | ((c.1 as i64) << 8) | c.2 as i64
}

fn digest(p: &Palette) -> i64 {
    let mut h: u64 = 0;
    for c in p.color_iter() {
        let (r, g, b) = c.get_rgb();
        h = ((h << 5) + h + pack((r, g, b)) as u64 + 1) & 0xFFFF_FFFF;
    }
    h as i64
}

fn dump(p: &Palette, out: &mut Vec<i64>) {
    out.push(p.len() as i64);
    for c in p.color_iter() {
        let (r, g, b) = c.get_rgb();
        out.push(r as i64);
        out.push(g as i64);
        out.push(b as i64);
        match &c.name {
            None => out.push(-1),
            Some(n) => {
                out.push(n.chars().count() as i64);
                for ch in n.chars() {
                    out.push(ch as i64);
                }
            }
        }
    }
}

fn named(rgb: (u8, u8, u8), name: Option<String>) -> Color {
    let mut c = Color::new(rgb.0, rgb.1, rgb.2);
    c.name = name;
    c
}

fn fmt_of(s: &str) -> PaletteFormat {
    match s {
        "hex" => PaletteFormat::Hex,
        "pal" => PaletteFormat::Pal,
        "gpl" => PaletteFormat::Gpl,
        "ice" => PaletteFormat::Ice,
        "txt" => PaletteFormat::Txt,
        _ => panic!("unknown palette format {s}"),
    }
}

/// applies one op; returns (ret1, ret2)
fn apply(p: &mut Palette, op: &str) -> (i64, i64) {
    let f: Vec<&str> = op.split(',').collect();
    match f[0] {
        "i" => {
            let (r, g, b) = rgb_of(f[1]);
            (p.insert_color_rgb(r, g, b) as i64, 0)
        }
        "n" => (p.insert_color(named(rgb_of(f[1]), Some(utf8(f[2])))) as i64, 0),
        "s" => {
            let (r, g, b) = rgb_of(f[2]);
            p.set_color_rgb(f[1].parse().unwrap(), r, g, b);
            (0, 0)
        }
        "c" => {
            let name = if f[3] == "~" { None } else { Some(utf8(f[3])) };
            p.set_color(f[1].parse().unwrap(), named(rgb_of(f[2]), name));
            (0, 0)
        }
        "l" => {
            let i: u32 = f[1].parse().unwrap();
            (pack(p.get_rgb(i)), pack(p.get_color(i).get_rgb()))
        }
        "p" => {
            let (r, g, b) = rgb_of(f[1]);
            p.push(Color::new(r, g, b));
            (0, 0)
        }
        "f" => {
            p.fill_to_16();
            (0, 0)
        }
        "z" => {
            p.resize(f[1].parse().unwrap());
            (0, 0)
        }
        "x" => {
            p.clear();
            (0, 0)
        }
        _ => panic!("unknown op {op}"),
    }
}

fn snapshot(p: &Palette) -> Vec<(u8, u8, u8)> {
    (0..p.len() as u32).map(|i| p.get_rgb(i)).collect()
}

/// The property itself, checked on the real `Palette` while the sequence runs.
/// Returns [0] or [code, op index, index, got, want].
fn oracle(init: &[u8], ops: &[&str]) -> Vec<i64> {
    let mut p = Palette::from(init);
    // expected resolution of every index that is valid right now
    let mut want: Vec<(u8, u8, u8)> = snapshot(&p);
    for (k, chunk) in init.chunks(3).enumerate() {
        if want[k] != (chunk[0], chunk[1], chunk[2]) {
            return vec![9, -1, k as i64, pack(want[k]), pack((chunk[0], chunk[1], chunk[2]))];
        }
    }
    for (k, op) in ops.iter().enumerate() {
        let f: Vec<&str> = op.split(',').collect();
        let before = want.clone();
        let (ret, ret2) = apply(&mut p, op);
        let after = snapshot(&p);
        let k = k as i64;
        match f[0] {
            "i" | "n" => {
                let c = rgb_of(f[1]);
                let idx = ret as usize;
                // the returned index resolves to exactly that colour
                if p.get_rgb(ret as u32) != c {
                    return vec![1, k, ret, pack(p.get_rgb(ret as u32)), pack(c)];
                }
                // every previously valid index resolves to its previous value
                for (j, w) in before.iter().enumerate() {
                    if j >= after.len() || after[j] != *w {
                        return vec![2, k, j as i64, if j < after.len() { pack(after[j]) } else { -1 }, pack(*w)];
                    }
                }
                // a colour that was present keeps its existing (first) index and nothing is appended
                match before.iter().position(|x| *x == c) {
                    Some(first) => {
                        if idx != first || after.len() != before.len() {
                            return vec![3, k, ret, first as i64, after.len() as i64];
                        }
                    }
                    None => {
                        if idx != before.len() || after.len() != before.len() + 1 {
                            return vec![4, k, ret, before.len() as i64, after.len() as i64];
                        }
                    }
                }
                want = after;
            }
            "s" | "c" => {
                let i: usize = f[1].parse().unwrap();
                let c = rgb_of(f[2]);
                if i >= after.len() || after[i] != c {
                    return vec![5, k, i as i64, if i < after.len() { pack(after[i]) } else { -1 }, pack(c)];
                }
                for (j, w) in before.iter().enumerate() {
                    if j != i && (j >= after.len() || after[j] != *w) {
                        return vec![6, k, j as i64, if j < after.len() { pack(after[j]) } else { -1 }, pack(*w)];
                    }
                }
                want = after;
            }
            "l" => {
                let i: u32 = f[1].parse().unwrap();
                let w = if i & (1 << 31) != 0 {
                    ((i >> 16) as u8, (i >> 8) as u8, i as u8)
                } else if (i as usize) < before.len() {
                    before[i as usize]
                } else {
                    (0, 0, 0)
                };
                if ret != pack(w) || ret2 != pack(w) {
                    return vec![7, k, i as i64, ret, pack(w)];
                }
                if after != before {
                    return vec![8, k, 0, 0, 0];
                }
            }
            "p" | "f" => {
                for (j, w) in before.iter().enumerate() {
                    if j >= after.len() || after[j] != *w {
                        return vec![2, k, j as i64, if j < after.len() { pack(after[j]) } else { -1 }, pack(*w)];
                    }
                }
                want = after;
            }
            _ => {
                // resize / clear: indices below the new length keep their value
                for (j, w) in before.iter().enumerate() {
                    if j < after.len() && after[j] != *w {
                        return vec![2, k, j as i64, pack(after[j]), pack(*w)];
                    }
                }
                want = after;
            }
        }
    }
    vec![0]
}

fn build(args: &[&str]) -> Palette {
    let mut p = Palette::new();
    p.title = utf8(args[0]);
    p.author = utf8(args[1]);
    p.description = utf8(args[2]);
    let b = unhex(args[3]);
    let mut cols: Vec<Color> = b.chunks(3).map(|c| Color::new(c[0], c[1], c[2])).collect();
    for t in &args[4..] {
        let f: Vec<&str> = t.split(',').collect();
        let i: usize = f[0].parse().unwrap();
        cols[i].name = Some(utf8(f[1]));
    }
    for c in cols {
        p.push(c);
    }
    p
}

fn load_obs(fmt: &PaletteFormat, bytes: &[u8], out: &mut Vec<i64>) {
    match Palette::load_palette(fmt, bytes) {
        Err(_) => out.push(1),
        Ok(q) => {
            out.push(0);
            out.push(q.len() as i64);
            for c in q.color_iter() {
                let (r, g, b) = c.get_rgb();
                out.push(r as i64);
                out.push(g as i64);
                out.push(b as i64);
            }
        }
    }
}

pub fn run(kind: &str, args: &[&str]) -> Option<Obs> {
    Some(match kind {
        "pal_ops" => {
            let mut p = Palette::from(&unhex(args[0]));
            let mut out = Vec::new();
            for op in &args[1..] {
                let (a, b) = apply(&mut p, op);
                out.push(a);
                out.push(b);
                out.push(p.len() as i64);
                out.push(digest(&p));
            }
            dump(&p, &mut out);
            Ok(out)
        }
        "pal_oracle" => Ok(oracle(&unhex(args[0]), &args[1..])),
        "pal_exp" => {
            let fmt = fmt_of(args[0]);
            let p = build(&args[1..]);
            let bytes = p.export_palette(&fmt);
            let mut out = vec![bytes.len() as i64];
            out.extend(bytes.iter().map(|b| *b as i64));
            load_obs(&fmt, &bytes, &mut out);
            Ok(out)
        }
        "pal_load" => {
            let mut out = Vec::new();
            load_obs(&fmt_of(args[0]), &unhex(args[1]), &mut out);
            Ok(out)
        }
        "pal_63" => {
            let p = Palette::from_63(&unhex(args[0]));
            let mut out = Vec::new();
            dump(&p, &mut out);
            let v = p.as_vec_63();
            out.push(v.len() as i64);
            out.extend(v.iter().map(|b| *b as i64));
            Ok(out)
        }
        "pal_v63" => Ok(Palette::from(&unhex(args[0])).as_vec_63().iter().map(|b| *b as i64).collect()),
        "pal_egaf" => {
            let p = from_ega_data(&unhex(args[0]));
            let mut out = Vec::new();
            dump(&p, &mut out);
            Ok(out)
        }
        "pal_egat" => Ok(to_ega_data(&Palette::from(&unhex(args[0]))).iter().map(|b| *b as i64).collect()),
        "pal_sweep63" => {
            let mut bad = 0i64;
            let mut first = -1i64;
            let mut note = |v: i64| {
                bad += 1;
                if first < 0 {
                    first = v;
                }
            };
            if args[0] == "0" {
                // per channel: reduce(expand(reduce b)) == reduce b for every byte, reduce(expand c) == c for c < 64
                for ch in 0..3usize {
                    for b in 0..=255u8 {
                        let mut col = [0u8; 3];
                        col[ch] = b;
                        let six = Palette::from(&col).as_vec_63();
                        let again = Palette::from_63(&six).as_vec_63();
                        if again != six {
                            note(((ch as i64) << 8) | b as i64);
                        }
                        if b < 64 {
                            let back = Palette::from_63(&col).as_vec_63();
                            if back != col.to_vec() {
                                note((1 << 16) | ((ch as i64) << 8) | b as i64);
                            }
                        }
                    }
                }
                // EGA variant: to(from(to p)) == to p on a palette made of all byte values
                let all: Vec<u8> = (0..48u32).map(|i| (i * 37 % 256) as u8).collect();
                let t1 = to_ega_data(&Palette::from(&all));
                let t2 = to_ega_data(&from_ega_data(&t1));
                if t1 != t2 {
                    note(2 << 16);
                }
            } else {
                for r in 0..64u8 {
                    for g in 0..64u8 {
                        for b in 0..64u8 {
                            let six = [r, g, b];
                            if Palette::from_63(&six).as_vec_63() != six.to_vec() {
                                note(((r as i64) << 16) | ((g as i64) << 8) | b as i64);
                            }
                        }
                    }
                }
            }
            Ok(vec![bad, first])
        }
        _ => return None,
    })
}
