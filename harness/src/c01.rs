//! C01: outcome classes of the terminal emulations on arbitrary byte streams (see props/c01.py).
//!   c01run <emu> <music> <w> <h> <hex>  feed every byte (b as char); an Err is recorded and feeding continues
//!                                       -> n_ok n_err first_err_index(-1) cx cy bw bh tw th nlines
//! A panic unwinds to the worker (reported as `panic file:line`); aborts / stack overflows / timeouts / OOM are
//! classified by the driver from the way the worker dies.
use crate::c09::Term;
use crate::util::unhex;
use crate::Obs;
use icy_engine::TextPane;

fn c01run(args: &[&str]) -> Obs {
    let emu: usize = args[0].parse().unwrap();
    let music: usize = args[1].parse().unwrap();
    let w: i32 = args[2].parse().unwrap();
    let h: i32 = args[3].parse().unwrap();
    let bytes = unhex(args[4]);
    let mut t = Term::new(emu, music, w, h);
    let (mut n_ok, mut n_err, mut first_err) = (0i64, 0i64, -1i64);
    for (i, b) in bytes.iter().enumerate() {
        let cls = t.feed(*b);
        if cls == 1 {
            n_err += 1;
            if first_err < 0 {
                first_err = i as i64;
            }
        } else {
            n_ok += 1;
        }
    }
    // joining the sixel decode threads is part of consuming a stream (C14 owns their semantics; here: must not crash)
    let _ = t.buf.update_sixel_threads();
    let p = t.caret.get_position();
    Ok(vec![
        n_ok,
        n_err,
        first_err,
        p.x as i64,
        p.y as i64,
        t.buf.get_width() as i64,
        t.buf.get_height() as i64,
        t.buf.terminal_state.get_width() as i64,
        t.buf.terminal_state.get_height() as i64,
        t.buf.layers[0].lines.len() as i64,
    ])
}

pub fn run(kind: &str, args: &[&str]) -> Option<Obs> {
    match kind {
        "c01run" => Some(c01run(args)),
        _ => None,
    }
}
