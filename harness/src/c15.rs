//! C15: text-format writers and loaders through the public API (see props/c15.py).
//!
//! Formats are named by file extension: pcb | avt | msg (Ctrl-A) | an1 (Renegade) | asc | ata.
//! Screen preparation: 0 None, 1 Home, 2 ClearScreen.
//! A source buffer is `<w> <h> <row>*h`; a row is a hex string of 4 bytes per cell
//! (ch, fg, bg, low byte of the attr flag word), `-` for an empty row.  The buffer is built as
//! `Buffer::new((w, h))` + `layers[0].set_char` for the given cells; cells not given stay invisible.
//!
//!   wr <fmt> <prep> <lossless> <w> <h> rows..   -> bytes of Buffer::to_bytes
//!   ld <fmt> <hex>                              -> raw loaded layer: [line_count, buffer height, layer height,
//!                                                  layer width, then per line: len, (ch fg bg attr font_page)*len]
//!   rt <fmt> <prep> <lossless> <w> <h> rows..   -> [file starts with EF BB BF, last 128 bytes start with "SAUCE",
//!                                                  file length, line_count, width, (ch fg bg attr)* for y < line_count, x < width
//!                                                  read with Buffer::get_char]; when lossless = 0 followed by
//!                                                  [h, w, (ch fg bg attr)*] of ColorOptimizer::optimize(source)
//!   cv <hex>                                    -> convert_ansi_to_utf8: [is_unicode, chars...]
use crate::util::unhex;
use crate::Obs;
use icy_engine::{AttributedChar, Buffer, BufferType, ColorOptimizer, SaveOptions, ScreenPreperation, TextAttribute, TextPane};
use std::path::PathBuf;

fn build(fmt: &str, args: &[&str]) -> Buffer {
    let w: i32 = args[0].parse().unwrap();
    let h: i32 = args[1].parse().unwrap();
    let mut buf = Buffer::new((w, h));
    if fmt == "ata" {
        buf.buffer_type = BufferType::Atascii;
    }
    for y in 0..h as usize {
        let row = unhex(args[2 + y]);
        for (x, c) in row.chunks(4).enumerate() {
            let mut a = TextAttribute::new(c[1] as u32, c[2] as u32);
            a.attr = c[3] as u16;
            buf.layers[0].set_char((x as i32, y as i32), AttributedChar::new(c[0] as char, a));
        }
    }
    buf
}

fn options(prep: &str, lossless: &str) -> SaveOptions {
    let mut o = SaveOptions::new();
    o.screen_preparation = match prep {
        "0" => ScreenPreperation::None,
        "1" => ScreenPreperation::Home,
        "2" => ScreenPreperation::ClearScreen,
        _ => panic!("bad screen preparation"),
    };
    o.lossles_output = lossless == "1";
    o.save_sauce = false;
    o
}

fn cell(v: &mut Vec<i64>, c: AttributedChar) {
    v.push(c.ch as i64);
    v.push(c.attribute.get_foreground() as i64);
    v.push(c.attribute.get_background() as i64);
    v.push(c.attribute.attr as i64);
}

pub fn run(kind: &str, args: &[&str]) -> Option<Obs> {
    let mut v: Vec<i64> = Vec::new();
    match kind {
        "wr" => {
            let buf = build(args[0], &args[3..]);
            match buf.to_bytes(args[0], &options(args[1], args[2])) {
                Ok(b) => v.extend(b.iter().map(|x| *x as i64)),
                Err(e) => return Some(Err(format!("to_bytes:{e}"))),
            }
        }
        "ld" => {
            let data = unhex(args[1]);
            let name = PathBuf::from(format!("t.{}", args[0]));
            match Buffer::from_bytes(&name, true, &data) {
                Ok(b) => {
                    let l = &b.layers[0];
                    v.push(b.get_line_count() as i64);
                    v.push(b.get_height() as i64);
                    v.push(l.get_height() as i64);
                    v.push(l.get_width() as i64);
                    for line in &l.lines {
                        v.push(line.chars.len() as i64);
                        for c in &line.chars {
                            cell(&mut v, *c);
                            v.push(c.attribute.get_font_page() as i64);
                        }
                    }
                }
                Err(e) => return Some(Err(format!("from_bytes:{e}"))),
            }
        }
        "rt" => {
            let buf = build(args[0], &args[3..]);
            let opt = options(args[1], args[2]);
            let bytes = match buf.to_bytes(args[0], &opt) {
                Ok(b) => b,
                Err(e) => return Some(Err(format!("to_bytes:{e}"))),
            };
            let name = PathBuf::from(format!("t.{}", args[0]));
            let b = match Buffer::from_bytes(&name, true, &bytes) {
                Ok(b) => b,
                Err(e) => return Some(Err(format!("from_bytes:{e}"))),
            };
            v.push(bytes.starts_with(&[0xEF, 0xBB, 0xBF]) as i64);
            v.push((bytes.len() >= 128 && &bytes[bytes.len() - 128..bytes.len() - 123] == b"SAUCE") as i64);
            v.push(bytes.len() as i64);
            let lc = b.get_line_count();
            let w = b.get_width();
            v.push(lc as i64);
            v.push(w as i64);
            for y in 0..lc {
                for x in 0..w {
                    cell(&mut v, b.get_char((x, y)));
                }
            }
            if !opt.lossles_output {
                let o = ColorOptimizer::new(&buf, &opt).optimize(&buf);
                v.push(o.get_line_count() as i64);
                v.push(o.get_width() as i64);
                for y in 0..o.get_line_count() {
                    for x in 0..o.get_width() {
                        cell(&mut v, o.get_char((x, y)));
                    }
                }
            }
        }
        "cv" => {
            let data = unhex(args[0]);
            let (s, u) = icy_engine::convert_ansi_to_utf8(&data);
            v.push(u as i64);
            v.extend(s.chars().map(|c| c as i64));
        }
        _ => return None,
    }
    Some(Ok(v))
}
