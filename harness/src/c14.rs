//! C14: sixel decoding (Sixel::parse_from) and the decode queue (execute_dcs + update_sixel_threads),
//! the latter driven through the cfg(icy_engine_verif) gate so that completion order is chosen by the case.
use crate::util::unhex;
use crate::Obs;
use icy_engine::{ansi, Buffer, BufferParser, Caret, ParserError, Position, Sixel};

fn err_code(e: &anyhow::Error) -> i64 {
    match e.downcast_ref::<ParserError>() {
        Some(ParserError::InvalidColorInSixelSequence) => 1,
        Some(ParserError::UnsupportedSixelColorformat(_)) => 2,
        Some(ParserError::InvalidPictureSize) => 3,
        Some(ParserError::NumberMissingInSixelRepeat) => 4,
        Some(ParserError::InvalidSixelChar(_)) => 5,
        _ => 99,
    }
}

fn decode(payload: &str, shape_only: bool) -> Vec<i64> {
    match Sixel::parse_from(Position::new(0, 0), 1, 1, [0, 0, 0, 0], payload) {
        Ok(s) => {
            let mut v = vec![0, s.get_width() as i64, s.get_height() as i64, s.picture_data.len() as i64];
            if shape_only {
                v.extend(s.picture_data.iter().skip(3).step_by(4).map(|b| *b as i64));
            } else {
                v.extend(s.picture_data.iter().map(|b| *b as i64));
            }
            v
        }
        Err(e) => vec![1, err_code(&e)],
    }
}

/// args: fw-ignored… `<k> (<px> <py> <payload-hex>)*k  <events…>` events: 0 Arrive (next image), 1 Poll, 2+id Finish id
fn queue(args: &[&str]) -> Obs {
    let k: usize = args[0].parse().unwrap();
    let mut imgs = Vec::new();
    for i in 0..k {
        let px: i32 = args[1 + 3 * i].parse().unwrap();
        let py: i32 = args[2 + 3 * i].parse().unwrap();
        let payload = String::from_utf8(unhex(args[3 + 3 * i])).unwrap();
        imgs.push((px, py, payload));
    }
    let evs: Vec<usize> = args[1 + 3 * k..].iter().map(|s| s.parse().unwrap()).collect();
    let mut buf = Buffer::new((80, 25));
    buf.is_terminal_buffer = true;
    let mut caret = Caret::default();
    let mut parser = ansi::Parser::default();
    icy_engine::verif_hooks::sixel_gate_enable(true);
    let mut out: Vec<i64> = Vec::new();
    let mut arrived = 0usize;
    let mut finished = vec![false; k];
    let font = buf.get_font_dimensions();
    let mut feed = |buf: &mut Buffer, caret: &mut Caret, s: &str| -> Result<(), String> {
        for ch in s.chars() {
            parser.print_char(buf, 0, caret, ch).map_err(|e| format!("parser:{e}"))?;
        }
        Ok(())
    };
    for e in evs {
        match e {
            0 => {
                let (px, py, payload) = &imgs[arrived];
                feed(&mut buf, &mut caret, &format!("\x1b[{};{}H\x1bPq{}\x1b\\", py + 1, px + 1, payload))?;
                arrived += 1;
            }
            1 => {
                let r = buf.update_sixel_threads();
                let code = match r {
                    Ok(false) => 0,
                    Ok(true) => 1,
                    Err(_) => 2,
                };
                out.push(code);
                out.push(buf.sixel_threads.len() as i64);
                out.push(buf.layers[0].sixels.len() as i64);
                for s in &buf.layers[0].sixels {
                    let r = s.get_screen_rect(font);
                    out.extend([r.start.x as i64, r.start.y as i64, r.size.width as i64, r.size.height as i64]);
                }
            }
            n => {
                let id = n - 2;
                if id >= arrived || finished[id] {
                    continue;
                }
                finished[id] = true;
                icy_engine::verif_hooks::sixel_gate_release(&imgs[id].2);
                // wait until that decode thread has really finished: its handle is at index id - popped
                let popped = arrived - buf.sixel_threads.len();
                if id >= popped {
                    let idx = id - popped;
                    let t0 = std::time::Instant::now();
                    while !buf.sixel_threads[idx].is_finished() {
                        std::thread::sleep(std::time::Duration::from_micros(200));
                        if t0.elapsed().as_secs() > 4 {
                            icy_engine::verif_hooks::sixel_gate_enable(false);
                            return Err("decode-thread-did-not-finish".to_string());
                        }
                    }
                }
            }
        }
    }
    icy_engine::verif_hooks::sixel_gate_enable(false);
    Ok(out)
}

pub fn run(kind: &str, args: &[&str]) -> Option<Obs> {
    Some(match kind {
        "sixel" => Ok(decode(&String::from_utf8(unhex(args[0])).unwrap(), false)),
        "sixelshape" => Ok(decode(&String::from_utf8(unhex(args[0])).unwrap(), true)),
        "sixelq" => queue(args),
        _ => return None,
    })
}
