//! C09 (and the shared terminal runner used by C01): feed a character stream to one of the ten text-mode
//! emulations attached to a terminal buffer and observe geometry after every character.
//!
//! kinds
//!   term   <emu> <music> <w> <h> <hex>     per character: cls cx cy bw bh lw lh tw th nlines mt mb ml mr flags ntabs rowsum tabsum
//!                                          then, once: -7 nlines len_0 .. len_{n-1} -8 ntabs tab_0 ..
//!   c09inv <emu> <music> <w> <h> <hex>     the invariant of C09 checked after EVERY character (oracle, no model involved)
//!                                          -> n_fed viol_index(-1 none) viol_kind cx cy first tw th bw bh lw lh nlines resized_at(-1)
//!   c09exh <emu> <music> <w> <h> <depth> <setup-hex> <first-token-index|-1> <tok,tok,...>
//!                                          all sequences of <depth> tokens (first one fixed when index >= 0), each after the
//!                                          setup bytes; -> n_seq n_viol then per violation (max 40): depth indices.. char_idx kind cx cy first tok_pos
use crate::util::unhex;
use crate::Obs;
use icy_engine::{ansi, ascii, atascii, avatar, ctrla, mode7, pcboard, petscii, renegade, viewdata};
use icy_engine::{Buffer, BufferParser, CallbackAction, Caret, TextPane};

pub fn make_parser(emu: usize, music: usize) -> Box<dyn BufferParser> {
    match emu {
        0 => {
            let mut p = ansi::Parser::default();
            p.ansi_music = match music & 3 {
                1 => ansi::MusicOption::Conflicting,
                2 => ansi::MusicOption::Banana,
                3 => ansi::MusicOption::Both,
                _ => ansi::MusicOption::Off,
            };
            p.bs_is_ctrl_char = music & 4 != 0;
            Box::new(p)
        }
        1 => Box::<avatar::Parser>::default(),
        2 => Box::<pcboard::Parser>::default(),
        3 => Box::<ctrla::Parser>::default(),
        4 => Box::<renegade::Parser>::default(),
        5 => Box::<ascii::Parser>::default(),
        6 => Box::<petscii::Parser>::default(),
        7 => Box::<atascii::Parser>::default(),
        8 => Box::<viewdata::Parser>::default(),
        _ => Box::<mode7::Parser>::default(),
    }
}

pub struct Term {
    pub buf: Buffer,
    pub caret: Caret,
    pub parser: Box<dyn BufferParser>,
    pub emu: usize,
    pub w: i32,
    pub h: i32,
}

impl Term {
    pub fn new(emu: usize, music: usize, w: i32, h: i32) -> Self {
        let mut buf = Buffer::new((w, h));
        buf.is_terminal_buffer = true;
        Term { buf, caret: Caret::default(), parser: make_parser(emu, music), emu, w, h }
    }

    /// 0 = Ok(action), 1 = Err, 3 = Ok(ResizeTerminal)
    pub fn feed(&mut self, b: u8) -> i64 {
        match self.parser.print_char(&mut self.buf, 0, &mut self.caret, b as char) {
            Ok(CallbackAction::ResizeTerminal(_, _)) => 3,
            Ok(_) => 0,
            Err(_) => 1,
        }
    }

    pub fn first(&self) -> i32 {
        self.buf.get_first_visible_line()
    }

    /// 0 = holds; 1 = column outside 0..width; 2 = row outside the visible rows; 3 = fixed grid changed size
    pub fn c09_violation(&self) -> i64 {
        let p = self.caret.get_position();
        let tw = self.buf.terminal_state.get_width();
        let th = self.buf.terminal_state.get_height();
        let first = self.first();
        if self.emu >= 8 {
            let l = &self.buf.layers[0];
            if self.buf.get_width() != self.w
                || self.buf.get_height() != self.h
                || tw != self.w
                || th != self.h
                || l.get_width() != self.w
                || l.get_height() != self.h
                || l.lines.len() as i32 > self.h
                || first != 0
            {
                return 3;
            }
        }
        if p.x < 0 || p.x >= tw {
            return 1;
        }
        if p.y < first || p.y >= first + th {
            return 2;
        }
        0
    }

    pub fn obs(&self, cls: i64, out: &mut Vec<i64>) {
        let p = self.caret.get_position();
        let b = &self.buf;
        let l = &b.layers[0];
        let ts = &b.terminal_state;
        let (mt, mb) = ts.get_margins_top_bottom().unwrap_or((-9, -9));
        let (ml, mr) = ts.get_margins_left_right().unwrap_or((-9, -9));
        let mut flags = 0i64;
        if ts.origin_mode == icy_engine::OriginMode::WithinMargins {
            flags |= 1;
        }
        if ts.auto_wrap_mode == icy_engine::AutoWrapMode::AutoWrap {
            flags |= 2;
        }
        if self.caret.insert_mode {
            flags |= 4;
        }
        if ts.dec_margin_mode_left_right {
            flags |= 8;
        }
        let mut rowsum = 0i64;
        for (i, ln) in l.lines.iter().enumerate() {
            rowsum = (rowsum + (i as i64 + 1) * (ln.chars.len() as i64 + 1)) % 1_000_003;
        }
        let mut tabsum = 0i64;
        for (i, t) in ts.get_tabs().iter().enumerate() {
            tabsum = (tabsum + (i as i64 + 1) * (*t as i64 + 7)) % 1_000_003;
        }
        out.extend_from_slice(&[
            cls,
            p.x as i64,
            p.y as i64,
            b.get_width() as i64,
            b.get_height() as i64,
            l.get_width() as i64,
            l.get_height() as i64,
            ts.get_width() as i64,
            ts.get_height() as i64,
            l.lines.len() as i64,
            mt as i64,
            mb as i64,
            ml as i64,
            mr as i64,
            flags,
            ts.tab_count() as i64,
            rowsum,
            tabsum,
        ]);
    }
}

fn parse_head(args: &[&str]) -> (usize, usize, i32, i32) {
    (args[0].parse().unwrap(), args[1].parse().unwrap(), args[2].parse().unwrap(), args[3].parse().unwrap())
}

fn term(args: &[&str]) -> Obs {
    let (emu, music, w, h) = parse_head(args);
    let bytes = unhex(args[4]);
    let mut t = Term::new(emu, music, w, h);
    let mut out = Vec::with_capacity(bytes.len() * 18 + 64);
    for b in bytes {
        let cls = t.feed(b);
        t.obs(if cls == 3 { 0 } else { cls }, &mut out);
    }
    let l = &t.buf.layers[0];
    out.push(-7);
    out.push(l.lines.len() as i64);
    for ln in &l.lines {
        out.push(ln.chars.len() as i64);
    }
    out.push(-8);
    out.push(t.buf.terminal_state.tab_count() as i64);
    for x in t.buf.terminal_state.get_tabs() {
        out.push(*x as i64);
    }
    Ok(out)
}

fn c09inv(args: &[&str]) -> Obs {
    let (emu, music, w, h) = parse_head(args);
    let bytes = unhex(args[4]);
    let mut t = Term::new(emu, music, w, h);
    let mut viol_idx = -1i64;
    let mut viol = 0i64;
    let mut snap = vec![0i64; 10];
    let mut resized = -1i64;
    let mut fed = 0i64;
    for (i, b) in bytes.iter().enumerate() {
        let cls = t.feed(*b);
        fed += 1;
        if cls == 3 {
            resized = i as i64;
            break; // the property excludes streams that request a text-area resize
        }
        let v = t.c09_violation();
        if v != 0 && viol_idx < 0 {
            viol_idx = i as i64;
            viol = v;
            let p = t.caret.get_position();
            snap = vec![
                p.x as i64,
                p.y as i64,
                t.first() as i64,
                t.buf.terminal_state.get_width() as i64,
                t.buf.terminal_state.get_height() as i64,
                t.buf.get_width() as i64,
                t.buf.get_height() as i64,
                t.buf.layers[0].get_width() as i64,
                t.buf.layers[0].get_height() as i64,
                t.buf.layers[0].lines.len() as i64,
            ];
        }
    }
    let mut out = vec![fed, viol_idx, viol];
    out.extend(snap);
    out.push(resized);
    Ok(out)
}

fn c09exh(args: &[&str]) -> Obs {
    let (emu, music, w, h) = parse_head(args);
    let depth: usize = args[4].parse().unwrap();
    let setup = unhex(args[5]);
    let first_tok: i64 = args[6].parse().unwrap();
    let toks: Vec<Vec<u8>> = args[7].split(',').map(unhex).collect();
    let n = toks.len();
    let mut idx = vec![0usize; depth];
    if first_tok >= 0 {
        idx[0] = first_tok as usize;
    }
    let mut nseq = 0i64;
    let mut nviol = 0i64;
    let mut out: Vec<i64> = Vec::new();
    'outer: loop {
        let mut t = Term::new(emu, music, w, h);
        for b in &setup {
            t.feed(*b);
        }
        nseq += 1;
        let mut ci = 0i64;
        'seq: for d in 0..depth {
            for b in &toks[idx[d]] {
                let cls = t.feed(*b);
                if cls == 3 {
                    break 'seq;
                }
                let v = t.c09_violation();
                if v != 0 {
                    nviol += 1;
                    if out.len() < 40 * (depth + 6) {
                        out.extend(idx.iter().map(|x| *x as i64));
                        let p = t.caret.get_position();
                        // char index, kind, caret, first visible line, index (in the sequence) of the token that broke it
                        out.extend_from_slice(&[ci, v, p.x as i64, p.y as i64, t.first() as i64, d as i64]);
                    }
                    break 'seq;
                }
                ci += 1;
            }
        }
        // next index vector
        let lo = if first_tok >= 0 { 1 } else { 0 };
        let mut k = depth;
        loop {
            if k == lo {
                break 'outer;
            }
            k -= 1;
            idx[k] += 1;
            if idx[k] < n {
                break;
            }
            idx[k] = 0;
        }
    }
    let mut res = vec![nseq, nviol];
    res.extend(out);
    Ok(res)
}

pub fn run(kind: &str, args: &[&str]) -> Option<Obs> {
    match kind {
        "term" => Some(term(args)),
        "c09inv" => Some(c09inv(args)),
        "c09exh" => Some(c09exh(args)),
        _ => None,
    }
}
