//! C11: SAUCE writer / reader / content split on the real code, public API only (see props/c11.py).
//!
//! kinds
//!   x <hex>                                   SauceData::extract on a byte string
//!   w <ft> <content> <w> <h> <ice> <font> <sauce…>   Buffer::write_sauce_info on `content`; prints the appended tail
//!   wx …same as w…                            write, then extract on the result, then the from_bytes cut (oracle)
//!   split <ext> <k> <hex>                     from_bytes(data) == load_buffer(data[..k], extract(data)) ?
//!   e2e <ext> <w> <h> <ice> <font> <seed> <tail> <sauce…>   save with SAUCE, load, compare metadata and picture
//!   huge <n> <k>                              2 GiB + k byte file whose record announces n comments (regression)
//! <sauce…> = `0` (buffer without SAUCE data) | `1 <title> <author> <group> <ar> <ls> <n> <c1> … <cn>` (raw CP437 bytes, hex)
//! <font>   = `-` (no font in slot 0) | `default` | `empty` | hex of the UTF-8 font name
use crate::util::{hex, int, unhex};
use crate::Obs;
use icy_engine::{
    AttributedChar, BitFont, Buffer, IceMode, SauceData, SauceFileType, SauceString, SaveOptions, TextAttribute, TextPane, FORMATS,
};
use icy_engine::ascii::CP437_TO_UNICODE;
use std::path::PathBuf;

fn err_class(msg: &str) -> String {
    let m = msg.to_ascii_lowercase();
    let c = if m.starts_with("unsupported version") {
        "version"
    } else if m.starts_with("invalid sauce comment block") {
        "comment-block"
    } else if m.starts_with("invalid sauce comment id") {
        "comment-id"
    } else if m.starts_with("unsupported sauce date") {
        "date"
    } else if m.starts_with("comment limit exceeded") {
        "comment-limit"
    } else if m.starts_with("bin file width limit") {
        "bin-width"
    } else {
        return format!("other:{}", msg.chars().take(60).collect::<String>());
    };
    c.to_string()
}

fn sstr<const L: usize, const E: u8>(raw: &[u8]) -> Result<SauceString<L, E>, String> {
    let s: String = raw.iter().map(|b| CP437_TO_UNICODE[*b as usize]).collect();
    let r = SauceString::<L, E>::from(s);
    // make sure the public constructor really produced these bytes
    let mut v = Vec::new();
    r.append_to(&mut v);
    let n = raw.len().min(L);
    if v.len() < n || v[..n] != raw[..n] {
        return Err("cannot-construct-string".to_string());
    }
    Ok(r)
}

fn push_str<const L: usize, const E: u8>(out: &mut Vec<i64>, s: &SauceString<L, E>) {
    let mut v = Vec::new();
    s.append_to(&mut v);
    out.push(i64::from(s.is_empty()));
    out.push(s.len() as i64);
    out.push(v.len() as i64);
    out.extend(v.iter().map(|b| *b as i64));
}

fn ft_code(t: SauceFileType) -> i64 {
    match t {
        SauceFileType::Undefined => 0,
        SauceFileType::Ascii => 1,
        SauceFileType::Ansi => 2,
        SauceFileType::ANSiMation => 3,
        SauceFileType::PCBoard => 4,
        SauceFileType::Avatar => 5,
        SauceFileType::TundraDraw => 6,
        SauceFileType::Bin => 7,
        SauceFileType::XBin => 8,
    }
}

fn ft_of(code: i64) -> SauceFileType {
    match code {
        1 => SauceFileType::Ascii,
        2 => SauceFileType::Ansi,
        3 => SauceFileType::ANSiMation,
        4 => SauceFileType::PCBoard,
        5 => SauceFileType::Avatar,
        6 => SauceFileType::TundraDraw,
        7 => SauceFileType::Bin,
        8 => SauceFileType::XBin,
        _ => SauceFileType::Undefined,
    }
}

/// "2023-01-10 00:00:00" (also "+12345-01-10 …", "-0001-…") -> (y, m, d)
fn ymd(s: &str) -> (i64, i64, i64) {
    let date = s.split(' ').next().unwrap_or("");
    let mut it = date.rsplitn(3, '-');
    let d = it.next().unwrap_or("0").parse().unwrap_or(-1);
    let m = it.next().unwrap_or("0").parse().unwrap_or(-1);
    let y = it.next().unwrap_or("0").trim_start_matches('+').parse().unwrap_or(i64::MIN);
    (y, m, d)
}

/// [1, header_len, data_type, file_type, w, h, ice, ls, ar, y, m, d, font?, nfont, font code points…,
///  title, author, group (each: is_empty, len(), n, n appended bytes), ncomments, comments…]
fn obs_sauce(m: &SauceData, out: &mut Vec<i64>) {
    out.push(1);
    out.push(m.sauce_header_len as i64);
    out.push(m.data_type.clone() as u8 as i64);
    out.push(ft_code(m.sauce_file_type));
    out.push(m.buffer_size.width as i64);
    out.push(m.buffer_size.height as i64);
    out.push(i64::from(m.use_ice));
    out.push(i64::from(m.use_letter_spacing));
    out.push(i64::from(m.use_aspect_ratio));
    let (y, mo, d) = ymd(&m.creation_time.to_string());
    out.push(y);
    out.push(mo);
    out.push(d);
    match &m.font_opt {
        None => {
            out.push(0);
            out.push(0);
        }
        Some(f) => {
            out.push(1);
            out.push(f.chars().count() as i64);
            out.extend(f.chars().map(|c| c as i64));
        }
    }
    push_str(out, &m.title);
    push_str(out, &m.author);
    push_str(out, &m.group);
    out.push(m.comments.len() as i64);
    for c in &m.comments {
        push_str(out, c);
    }
}

fn extract_obs(data: &[u8]) -> Obs {
    match SauceData::extract(data) {
        Ok(None) => Ok(vec![0]),
        Ok(Some(m)) => {
            let mut out = Vec::new();
            obs_sauce(&m, &mut out);
            Ok(out)
        }
        Err(e) => Err(err_class(&e.to_string())),
    }
}

/// parses `<sauce…>`; returns the SauceData to put into the buffer
fn parse_sauce(args: &[&str]) -> Result<Option<SauceData>, String> {
    if args.is_empty() || args[0] == "0" {
        return Ok(None);
    }
    let mut s = SauceData::default();
    s.title = sstr::<35, b' '>(&unhex(args[1]))?;
    s.author = sstr::<20, b' '>(&unhex(args[2]))?;
    s.group = sstr::<20, b' '>(&unhex(args[3]))?;
    s.use_aspect_ratio = args[4] == "1";
    s.use_letter_spacing = args[5] == "1";
    let n = int(args[6]) as usize;
    for i in 0..n {
        s.comments.push(sstr::<64, 0>(&unhex(args[7 + i]))?);
    }
    Ok(Some(s))
}

/// `alloc`: allocate the w x h cell grid (end-to-end cases); otherwise only the size fields are set, which is
/// all write_sauce_info reads (lets stage C use heights such as 70000 cheaply)
fn make_buffer(w: i32, h: i32, ice: bool, font: &str, sauce: Option<SauceData>, alloc: bool) -> Buffer {
    let mut buf = if alloc { Buffer::new((w, h)) } else { Buffer::new((1, 1)) };
    buf.is_terminal_buffer = false;
    if ice {
        buf.ice_mode = IceMode::Ice;
    }
    if font == "-" {
        buf.remove_font(0);
    } else if font != "default" {
        let name = if font == "empty" { String::new() } else { String::from_utf8_lossy(&unhex(font)).to_string() };
        let mut f = match BitFont::from_sauce_name(&name) {
            Ok(f) => f,
            Err(_) => BitFont::default(),
        };
        f.name = name;
        buf.set_font(0, f);
    }
    if sauce.is_some() {
        buf.set_sauce(sauce, false);
    }
    if !alloc {
        buf.set_size((w, h));
    }
    buf
}

fn same_picture(a: &Buffer, b: &Buffer) -> i64 {
    if a.get_width() != b.get_width() {
        return 0;
    }
    let h = a.get_height().max(b.get_height());
    for y in 0..h {
        for x in 0..a.get_width() {
            let ca = a.get_char((x, y));
            let cb = b.get_char((x, y));
            let blank = |c: &AttributedChar| c.ch == ' ' || c.ch == '\0';
            if blank(&ca) && blank(&cb) && ca.attribute.get_background() == cb.attribute.get_background() {
                continue;
            }
            if ca.ch != cb.ch
                || ca.attribute.get_foreground() != cb.attribute.get_foreground()
                || ca.attribute.get_background() != cb.attribute.get_background()
                || ca.attribute.is_blinking() != cb.attribute.is_blinking()
                || ca.attribute.is_bold() != cb.attribute.is_bold()
            {
                return 0;
            }
        }
    }
    if a.get_height() == b.get_height() {
        2
    } else {
        1
    }
}

fn rnd(state: &mut u64) -> u64 {
    *state = state.wrapping_add(0x9E37_79B9_7F4A_7C15);
    let mut z = *state;
    z = (z ^ (z >> 30)).wrapping_mul(0xBF58_476D_1CE4_E5B9);
    z = (z ^ (z >> 27)).wrapping_mul(0x94D0_49BB_1331_11EB);
    z ^ (z >> 31)
}

pub fn run(kind: &str, args: &[&str]) -> Option<Obs> {
    Some(match kind {
        "x" => extract_obs(&unhex(args[0])),
        "w" | "wx" => {
            let ft = ft_of(int(args[0]));
            let content = unhex(args[1]);
            let sauce = match parse_sauce(&args[6..]) {
                Ok(s) => s,
                Err(e) => return Some(Err(e)),
            };
            let buf = make_buffer(int(args[2]) as i32, int(args[3]) as i32, args[4] == "1", args[5], sauce, false);
            let mut vec = content.clone();
            match buf.write_sauce_info(ft, &mut vec) {
                Err(e) => Err(err_class(&e.to_string())),
                Ok(_) => {
                    let keeps = vec.len() >= content.len() && vec[..content.len()] == content[..];
                    let tail: Vec<u8> = if keeps { vec[content.len()..].to_vec() } else { vec.clone() };
                    let mut out = vec![i64::from(keeps), tail.len() as i64];
                    out.extend(tail.iter().map(|b| *b as i64));
                    if kind == "wx" {
                        match SauceData::extract(&vec) {
                            Ok(None) => out.push(0),
                            Err(e) => return Some(Err(format!("extract-after-write:{}", err_class(&e.to_string())))),
                            Ok(Some(m)) => obs_sauce(&m, &mut out),
                        }
                    }
                    Ok(out)
                }
            }
        }
        "split" => {
            let ext = args[0];
            let k = int(args[1]) as usize;
            let data = unhex(args[2]);
            let path = PathBuf::from(format!("a.{ext}"));
            let b1 = Buffer::from_bytes(&path, false, &data);
            let sauce = SauceData::extract(&data).ok().flatten();
            let mut b2 = None;
            for fmt in &*FORMATS {
                if fmt.get_file_extension() == ext {
                    b2 = Some(fmt.load_buffer(&path, &data[..k.min(data.len())], sauce.clone()));
                }
            }
            match (b1, b2) {
                (Ok(a), Some(Ok(b))) => Ok(vec![1, same_picture(&a, &b), a.get_width() as i64, a.get_height() as i64, b.get_height() as i64]),
                (Err(_), Some(Err(_))) => Ok(vec![0, 2]),
                (Ok(_), Some(Err(_))) => Ok(vec![0, 0]),
                (Err(_), Some(Ok(_))) => Ok(vec![0, 1]),
                (_, None) => Err("unknown-extension".to_string()),
            }
        }
        "e2e" => {
            let ext = args[0];
            let (w, h) = (int(args[1]) as i32, int(args[2]) as i32);
            let ice = args[3] == "1";
            let mut seed = int(args[5]) as u64;
            let tail = unhex(args[6]);
            let sauce = match parse_sauce(&args[7..]) {
                Ok(s) => s,
                Err(e) => return Some(Err(e)),
            };
            let saved = sauce.clone();
            let mut buf = make_buffer(w, h, ice, args[4], sauce, true);
            let maxbg = if ice { 16 } else { 8 };
            for y in 0..h {
                for x in 0..w {
                    let r = rnd(&mut seed);
                    if r % 4 == 0 {
                        continue;
                    }
                    let ch = 0x21 + ((r >> 8) % 94) as u8;
                    let attr = TextAttribute::new(((r >> 20) % 16) as u32, ((r >> 30) % maxbg) as u32);
                    buf.layers[0].set_char((x, y), AttributedChar::new(ch as char, attr));
                }
            }
            // the picture's last cells spell `tail` (content ending in marker look-alikes)
            let n = tail.len().min(w as usize);
            for (i, b) in tail[tail.len() - n..].iter().enumerate() {
                let x = w - n as i32 + i as i32;
                buf.layers[0].set_char((x, h - 1), AttributedChar::new(*b as char, TextAttribute::new(7, 0)));
            }
            let mut opt = SaveOptions::new();
            opt.save_sauce = true;
            let with = match buf.to_bytes(ext, &opt) {
                Ok(b) => b,
                Err(e) => return Some(Err(format!("save:{}", err_class(&e.to_string())))),
            };
            opt.save_sauce = false;
            let without = match buf.to_bytes(ext, &opt) {
                Ok(b) => b,
                Err(e) => return Some(Err(format!("save-plain:{}", err_class(&e.to_string())))),
            };
            let path = PathBuf::from(format!("a.{ext}"));
            let l1 = match Buffer::from_bytes(&path, false, &with) {
                Ok(b) => b,
                Err(e) => return Some(Err(format!("load:{}", e.to_string().chars().take(40).collect::<String>()))),
            };
            let l2 = match Buffer::from_bytes(&path, false, &without) {
                Ok(b) => b,
                Err(e) => return Some(Err(format!("load-plain:{}", e.to_string().chars().take(40).collect::<String>()))),
            };
            // [prefix?, eof?, appended, same-defaults?, same-picture(0/1/2), saved w, saved h, l1 w, l1 h, l2 w, l2 h, sauce obs… ]
            let prefix = with.len() > without.len() && with[..without.len()] == without[..];
            let eof = prefix && with[without.len()] == 0x1A;
            let mut out = vec![i64::from(prefix), i64::from(eof), (with.len() - without.len().min(with.len())) as i64];
            let f1 = l1.get_font(0).map(|f| f.name.clone()).unwrap_or_default();
            let f2 = l2.get_font(0).map(|f| f.name.clone()).unwrap_or_default();
            let same_defaults = l1.get_width() == l2.get_width() && l1.ice_mode == l2.ice_mode && f1 == f2;
            out.push(i64::from(same_defaults));
            out.push(same_picture(&l1, &l2));
            out.extend([w as i64, h as i64, l1.get_width() as i64, l1.get_height() as i64, l2.get_width() as i64, l2.get_height() as i64]);
            out.push(i64::from(l2.get_sauce().is_some()));
            let _ = saved;
            match l1.get_sauce() {
                None => out.push(0),
                Some(m) => obs_sauce(m, &mut out),
            }
            Ok(out)
        }
        "huge" => {
            let n = int(args[0]) as u8;
            let k = int(args[1]) as usize;
            let total = (1usize << 31) + 128 + k;
            let mut data = vec![0u8; total];
            let o = total - 128;
            data[o..o + 7].copy_from_slice(b"SAUCE00");
            for i in 7..90 {
                data[o + i] = b' ';
            }
            data[o + 82..o + 90].copy_from_slice(b"20240101");
            data[o + 94] = 1;
            data[o + 95] = 1;
            data[o + 104] = n;
            if n > 0 {
                let c = o - 64 * n as usize - 5;
                data[c..c + 5].copy_from_slice(b"COMNT");
            }
            match SauceData::extract(&data) {
                Ok(None) => Ok(vec![0]),
                Ok(Some(m)) => Ok(vec![1, m.sauce_header_len as i64, m.comments.len() as i64]),
                Err(e) => Err(err_class(&e.to_string())),
            }
        }
        _ => return None,
    })
}

#[allow(dead_code)]
fn _unused() -> String {
    hex(&[])
}
