//! C04: implementation-side case runners (see props/c04.py). Stub until the property is built.
use crate::Obs;

pub fn run(_kind: &str, _args: &[&str]) -> Option<Obs> {
    None
}
