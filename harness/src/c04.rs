//! C04: ANSI writer / loader round trip through the public API (see props/c04.py).
//!
//! Case format (all kinds):  <kind> <bits> <prep> <cc> <ice> <w> <h> <pal> <cells>
//!   bits  save-option bits: 1 compress, 2 use_cursor_forward, 4 use_repeat_sequences, 8 preserve_line_length,
//!         16 longer_terminal_output, 32 use_extended_colors, 64 save_sauce, 128 lossles_output,
//!         256 normalize_whitespaces
//!   prep  0 None, 1 ClearScreen, 2 Home          cc  0 Ignore, 1 IcyTerm, 2 FilterOut
//!   ice   0 Unlimited, 1 Blink, 2 Ice  (IceMode::to_byte numbering)
//!   pal   hex, 3 bytes per palette entry, the COMPLETE palette of the buffer (`-` = keep the DOS default)
//!   cells hex, 7 bytes per cell row-major: ch, fg (u16 BE), bg (u16 BE), attr flags (u16 BE)
//! Kinds:
//!   c04wr   -> the bytes `Buffer::to_bytes("ans", opts)` wrote
//!   c04rt   -> [nbytes, bytes…, width, height, ice, then per cell of the RELOADED buffer: ch, shown fg rgb, bg rgb, blink]
//!   c04ld   -> (args: <w> <h> <hexbytes>) the same observation for `Buffer::from_bytes("x.ans", bytes)` alone
//!   c04shapes / c04num <digits>  -> leaf ties (glyph shapes of the default font, parse_next_number)
//!   c04chk  -> the property's oracle evaluated here: [mismatches, width_src, height_src, width_dst, height_dst, nbytes,
//!              the first three bytes of the file (-1 when shorter), then for the first mismatch:
//!              x, y, src ch, fg, bg, blink, dst ch, fg, bg, blink]
//! "shown fg" = palette colour of fg (+8 when the bold flag is set and fg < 8, as Buffer::render_to_rgba does),
//! colours are packed r<<16|g<<8|b, everything is read with Buffer::get_char (what the screen shows).
use crate::util::{int, unhex};
use crate::Obs;
use icy_engine::{AttributedChar, Buffer, Color, ControlCharHandling, IceMode, SaveOptions, ScreenPreperation, TextAttribute, TextPane};
use std::path::Path;

fn options(bits: i64, prep: &str, cc: &str) -> SaveOptions {
    let mut o = SaveOptions::new();
    o.compress = bits & 1 != 0;
    o.use_cursor_forward = bits & 2 != 0;
    o.use_repeat_sequences = bits & 4 != 0;
    o.preserve_line_length = bits & 8 != 0;
    o.longer_terminal_output = bits & 16 != 0;
    o.use_extended_colors = bits & 32 != 0;
    o.save_sauce = bits & 64 != 0;
    o.lossles_output = bits & 128 != 0;
    o.normalize_whitespaces = bits & 256 != 0;
    o.modern_terminal_output = false;
    o.output_line_length = None;
    o.skip_lines = None;
    o.screen_preparation = match prep {
        "0" => ScreenPreperation::None,
        "1" => ScreenPreperation::ClearScreen,
        "2" => ScreenPreperation::Home,
        _ => panic!("bad prep"),
    };
    o.control_char_handling = match cc {
        "0" => ControlCharHandling::Ignore,
        "1" => ControlCharHandling::IcyTerm,
        "2" => ControlCharHandling::FilterOut,
        _ => panic!("bad cc"),
    };
    o
}

fn ice(s: &str) -> IceMode {
    match s {
        "0" => IceMode::Unlimited,
        "1" => IceMode::Blink,
        "2" => IceMode::Ice,
        _ => panic!("bad ice"),
    }
}

fn build(args: &[&str]) -> (Buffer, SaveOptions) {
    let o = options(int(args[0]), args[1], args[2]);
    let (w, h) = (int(args[4]) as i32, int(args[5]) as i32);
    let mut buf = Buffer::new((w, h));
    buf.ice_mode = ice(args[3]);
    let pal = unhex(args[6]);
    if !pal.is_empty() {
        buf.palette.clear();
        for (i, c) in pal.chunks(3).enumerate() {
            buf.palette.set_color(i as u32, Color::new(c[0], c[1], c[2]));
        }
    }
    let cells = unhex(args[7]);
    for (i, c) in cells.chunks(7).enumerate() {
        let (x, y) = (i as i32 % w, i as i32 / w);
        let fg = ((c[1] as u32) << 8) | c[2] as u32;
        let bg = ((c[3] as u32) << 8) | c[4] as u32;
        let mut a = TextAttribute::new(fg, bg);
        a.attr = ((c[5] as u16) << 8) | c[6] as u16;
        buf.layers[0].set_char((x, y), AttributedChar::new(c[0] as char, a));
    }
    (buf, o)
}

fn pack(c: (u8, u8, u8)) -> i64 {
    ((c.0 as i64) << 16) | ((c.1 as i64) << 8) | c.2 as i64
}

/// what one cell shows: character code, displayed foreground, background, blink flag
fn shown(buf: &Buffer, x: i32, y: i32) -> [i64; 4] {
    let ch = buf.get_char((x, y));
    let a = ch.attribute;
    let mut fg = a.get_foreground();
    if a.is_bold() && fg < 8 {
        fg += 8;
    }
    [ch.ch as i64, pack(buf.palette.get_rgb(fg)), pack(buf.palette.get_rgb(a.get_background())), a.is_blinking() as i64]
}

fn ice_byte(m: IceMode) -> i64 {
    match m {
        IceMode::Unlimited => 0,
        IceMode::Blink => 1,
        IceMode::Ice => 2,
    }
}

fn obs_loaded(v: &mut Vec<i64>, b: &Buffer) {
    v.push(b.get_width() as i64);
    v.push(b.get_height() as i64);
    v.push(ice_byte(b.ice_mode));
    for y in 0..b.get_height() {
        for x in 0..b.get_width() {
            v.extend(shown(b, x, y));
        }
    }
}

fn blank(c: i64) -> bool {
    c == 0 || c == 32 || c == 255
}

pub fn run(kind: &str, args: &[&str]) -> Option<Obs> {
    let mut v: Vec<i64> = Vec::new();
    match kind {
        "c04wr" => {
            let (buf, o) = build(args);
            match buf.to_bytes("ans", &o) {
                Ok(bytes) => v.extend(bytes.iter().map(|b| *b as i64)),
                Err(e) => return Some(Err(format!("save:{e}"))),
            }
        }
        "c04rt" => {
            let (buf, o) = build(args);
            let bytes = match buf.to_bytes("ans", &o) {
                Ok(b) => b,
                Err(e) => return Some(Err(format!("save:{e}"))),
            };
            v.push(bytes.len() as i64);
            v.extend(bytes.iter().map(|b| *b as i64));
            match Buffer::from_bytes(Path::new("x.ans"), true, &bytes) {
                Ok(b) => obs_loaded(&mut v, &b),
                Err(e) => return Some(Err(format!("load:{e}"))),
            }
        }
        "c04ld" => {
            let bytes = unhex(args[0]);
            match Buffer::from_bytes(Path::new("x.ans"), true, &bytes) {
                Ok(b) => obs_loaded(&mut v, &b),
                Err(e) => return Some(Err(format!("load:{e}"))),
            }
        }
        "c04chk" => {
            let (buf, o) = build(args);
            let lossless = o.lossles_output;
            let bytes = match buf.to_bytes("ans", &o) {
                Ok(b) => b,
                Err(e) => return Some(Err(format!("save:{e}"))),
            };
            let b2 = match Buffer::from_bytes(Path::new("x.ans"), true, &bytes) {
                Ok(b) => b,
                Err(e) => return Some(Err(format!("load:{e}"))),
            };
            let (w, h) = (buf.get_width(), buf.get_height());
            let mut bad = 0i64;
            let mut first: Vec<i64> = Vec::new();
            // Buffer::get_char outside either buffer yields the invisible default cell (blank, DOS 7 on 0, no blink):
            // a row or column that exists on one side only has to be blank on the other
            for y in 0..h.max(b2.get_height()) {
                for x in 0..w.max(b2.get_width()) {
                    let (inside_s, inside_d) = (true, true);
                    let s = shown(&buf, x, y);
                    let d = shown(&b2, x, y);
                    let same_ch = s[0] == d[0] || (blank(s[0]) && blank(d[0]));
                    let same_fg = s[1] == d[1] || (blank(s[0]) && inside_s && inside_d);
                    let same_bg = s[2] == d[2] || (s[0] == 219 && !lossless && inside_s && inside_d);
                    let same_bl = s[3] == d[3];
                    if !(same_ch && same_fg && same_bg && same_bl) {
                        if bad == 0 {
                            first.push(x as i64);
                            first.push(y as i64);
                            first.extend(s);
                            first.extend(d);
                        }
                        bad += 1;
                    }
                }
            }
            v.push(bad);
            v.push(w as i64);
            v.push(h as i64);
            v.push(b2.get_width() as i64);
            v.push(b2.get_height() as i64);
            v.push(bytes.len() as i64);
            for i in 0..3 {
                v.push(bytes.get(i).map_or(-1, |b| *b as i64));
            }
            v.extend(first);
        }
        // glyph shapes of the default font as ColorOptimizer sees them, observed through its effect:
        // 0 whitespace (foreground taken from the previous cell), 1 block (background taken), 2 mixed
        "c04shapes" => {
            for code in 0..256u32 {
                let mut buf = Buffer::new((2, 1));
                buf.layers[0].set_char((0, 0), AttributedChar::new('A', TextAttribute::new(1, 2)));
                buf.layers[0].set_char((1, 0), AttributedChar::new(char::from_u32(code).unwrap(), TextAttribute::new(3, 4)));
                let mut o = SaveOptions::new();
                o.normalize_whitespaces = false;
                let opt = icy_engine::ColorOptimizer::new(&buf, &o).optimize(&buf);
                let a = opt.layers[0].get_char((1, 0)).attribute;
                v.push(if a.get_foreground() == 1 {
                    0
                } else if a.get_background() == 2 {
                    1
                } else {
                    2
                });
            }
        }
        // parse_next_number folded over a digit string
        "c04num" => {
            let mut x = 0i32;
            for b in args[0].bytes() {
                x = icy_engine::ansi::parse_next_number(x, b);
            }
            v.push(x as i64);
        }
        _ => return None,
    }
    Some(Ok(v))
}
