//! C20: RIPscrip and IGS command streams against the real parsers (see props/c20.py).
//!
//! Kinds
//!   rip    <hex>          feed the bytes (Latin-1 chars) to a fresh rip::Parser; search-stage observation
//!   ripseq <hex> <hex>…   same, several chunks on ONE parser (state carried over); one observation per chunk
//!   ripobs <hex>          stage-C observation of the BGI state after the stream (+ canvas hashes)
//!   ripobs2 <hex>         ripobs + line style / thickness / canvas after three epilogue lines (extension: line family)
//!   ripline <9 ints> <coords…>  Bgi::{line, rectangle, draw_poly, draw_poly_line} called directly (see fn ripline)
//!   igsobs <hex>          stage-C observation of the IGS parser + DrawExecutor (extension: IGS tokenizer / pixel kernel)
//!   igsdrain <hex> <n>    drain a pending loop for up to n further get_next_action calls
//!   igspix <hex>          the pixels a stream changed (for the line-clipping oracle of the search stage)
//!   igs    <hex>          feed the bytes to a fresh igs::Parser + DrawExecutor, draining at most 64 loop steps per char
//!
//! The engine prints to stdout from a few places (`println!` in the default `Command::run`, IGS loop parameter
//! errors); stdout is the worker protocol channel, so it is pointed at /dev/null while a case runs.
use crate::util::unhex;
use crate::Obs;
use icy_engine::{Buffer, BufferParser, Caret};
use std::io::Write;
use std::path::PathBuf;
use std::sync::{Arc, Mutex};

extern "C" {
    fn dup(fd: i32) -> i32;
    fn dup2(a: i32, b: i32) -> i32;
    fn open(path: *const u8, flags: i32, ...) -> i32;
    fn close(fd: i32) -> i32;
    fn clock_gettime(clk: i32, ts: *mut Timespec) -> i32;
}

#[repr(C)]
struct Timespec {
    tv_sec: i64,
    tv_nsec: i64,
}

/// CPU time of this process in milliseconds (CLOCK_PROCESS_CPUTIME_ID): independent of how loaded the machine is
fn cpu_ms() -> i64 {
    let mut ts = Timespec { tv_sec: 0, tv_nsec: 0 };
    unsafe {
        clock_gettime(2, &mut ts);
    }
    ts.tv_sec * 1000 + ts.tv_nsec / 1_000_000
}

struct Quiet {
    saved: i32,
}
impl Quiet {
    fn new() -> Quiet {
        let _ = std::io::stdout().flush();
        unsafe {
            let saved = dup(1);
            let null = open(b"/dev/null\0".as_ptr(), 1 /* O_WRONLY */);
            if null >= 0 {
                dup2(null, 1);
                close(null);
            }
            Quiet { saved }
        }
    }
}
impl Drop for Quiet {
    fn drop(&mut self) {
        let _ = std::io::stdout().flush();
        unsafe {
            if self.saved >= 0 {
                dup2(self.saved, 1);
                close(self.saved);
            }
        }
    }
}

/// directory the RIP parser looks icons up in: three tiny .ICN files (valid 8x8, truncated, over-sized header)
fn icon_dir() -> PathBuf {
    let d = std::env::temp_dir().join("ievh-c20-icons");
    if !d.join("C.ICN").exists() {
        let _ = std::fs::create_dir_all(&d);
        let mut a = vec![7u8, 0, 7, 0];
        a.extend((0..32).map(|i| (i * 37 + 11) as u8));
        let _ = std::fs::write(d.join("A.ICN"), &a);
        let _ = std::fs::write(d.join("B.ICN"), [15u8, 0, 15, 0, 1, 2, 3]);
        let mut c = vec![0xffu8, 0xff, 0xff, 0xff];
        c.extend(std::iter::repeat(0x5au8).take(40000));
        let _ = std::fs::write(d.join("C.ICN"), &c);
    }
    d
}

fn new_buf() -> (Buffer, Caret) {
    let mut buf = Buffer::new((80, 25));
    buf.is_terminal_buffer = true;
    (buf, Caret::default())
}

fn hash(bytes: &[u8]) -> i64 {
    // h <- (h*31 + b + 1) mod 2^32, the same fold the Coq side computes
    let mut h: u64 = 7;
    for b in bytes {
        h = (h * 31 + *b as u64 + 1) & 0xffff_ffff;
    }
    h as i64
}

struct Counts {
    chars: i64,
    ok: i64,
    err: i64,
}

fn feed_rip(p: &mut icy_engine::rip::Parser, buf: &mut Buffer, caret: &mut Caret, bytes: &[u8], c: &mut Counts) {
    for b in bytes {
        c.chars += 1;
        match p.print_char(buf, 0, caret, char::from(*b)) {
            Ok(_) => c.ok += 1,
            Err(_) => c.err += 1,
        }
    }
}

fn rip_obs(p: &mut icy_engine::rip::Parser, c: &Counts, v: &mut Vec<i64>) {
    let w = p.bgi.window.width as i64;
    let h = p.bgi.window.height as i64;
    v.extend([c.chars, c.ok, c.err, p.bgi.screen.len() as i64, w, h]);
    match p.get_picture_data() {
        Some((sz, px)) => v.extend([1, sz.width as i64, sz.height as i64, px.len() as i64]),
        None => v.extend([0, 0, 0, 0]),
    }
}

fn rip(args: &[&str]) -> Obs {
    let _q = Quiet::new();
    let mut p = icy_engine::rip::Parser::new(Box::default(), icon_dir());
    let (mut buf, mut caret) = new_buf();
    let mut v = Vec::new();
    let mut c = Counts { chars: 0, ok: 0, err: 0 };
    for a in args {
        feed_rip(&mut p, &mut buf, &mut caret, &unhex(a), &mut c);
        rip_obs(&mut p, &c, &mut v);
    }
    Ok(v)
}

fn wm_code(m: icy_engine::rip::bgi::WriteMode) -> i64 {
    use icy_engine::rip::bgi::WriteMode::*;
    match m {
        Copy => 0,
        Xor => 1,
        Or => 2,
        And => 3,
        Not => 4,
    }
}

fn ls_code(m: icy_engine::rip::bgi::LineStyle) -> i64 {
    use icy_engine::rip::bgi::LineStyle::*;
    match m {
        Solid => 0,
        Dotted => 1,
        Center => 2,
        Dashed => 3,
        User => 4,
    }
}

/// extension (line family): `ripobs2 <hex>` = the ripobs observation + line style, thickness and the canvas after two
/// epilogue lines (they make the line pattern and thickness visible)
fn ripobs2(args: &[&str]) -> Obs {
    ripobs_ext(args, true)
}

fn ripobs(args: &[&str]) -> Obs {
    ripobs_ext(args, false)
}

/// `ripline <vx0> <vy0> <vx1> <vy1> <style> <user_pat> <thick> <wm> <kind> <coords…>`: the line primitives called directly with
/// arbitrary i32 arguments on a fresh Bgi (kind 0: line x1 y1 x2 y2 ; 1: rectangle l t r b ; 2: draw_poly pts ; 3: draw_poly_line pts)
fn ripline(args: &[&str]) -> Obs {
    let _q = Quiet::new();
    let a: Vec<i32> = args.iter().map(|s| s.parse::<i32>().unwrap_or(0)).collect();
    if a.len() < 9 {
        return Err("args".into());
    }
    let mut bgi = icy_engine::rip::bgi::Bgi::new(icon_dir());
    bgi.set_viewport(a[0], a[1], a[2], a[3]);
    bgi.set_line_style(icy_engine::rip::bgi::LineStyle::from(a[4] as u8));
    if a[4] == 4 {
        bgi.set_line_pattern(a[5]);
    }
    bgi.set_line_thickness(a[6]);
    bgi.set_write_mode(icy_engine::rip::bgi::WriteMode::from(a[7] as u8));
    bgi.set_color(11);
    let c = &a[9..];
    match a[8] {
        0 => bgi.line(c[0], c[1], c[2], c[3]),
        1 => bgi.rectangle(c[0], c[1], c[2], c[3]),
        k => {
            let pts: Vec<icy_engine::Position> = c.chunks(2).filter(|p| p.len() == 2).map(|p| icy_engine::Position::new(p[0], p[1])).collect();
            if k == 2 {
                bgi.draw_poly(&pts)
            } else {
                bgi.draw_poly_line(&pts)
            }
        }
    }
    Ok(vec![bgi.screen.len() as i64, hash(&bgi.screen), bgi.screen.iter().filter(|b| **b != 0).count() as i64])
}

fn ripobs_ext(args: &[&str], ext: bool) -> Obs {
    let _q = Quiet::new();
    let mut p = icy_engine::rip::Parser::new(Box::default(), icon_dir());
    let (mut buf, mut caret) = new_buf();
    let mut c = Counts { chars: 0, ok: 0, err: 0 };
    feed_rip(&mut p, &mut buf, &mut caret, &unhex(args[0]), &mut c);
    let mut v = vec![c.err];
    let bgi = &mut p.bgi;
    v.push(bgi.get_color() as i64);
    v.push(bgi.get_bk_color() as i64);
    v.push(bgi.get_fill_color() as i64);
    v.push(bgi.get_fill_style() as i64);
    v.push(wm_code(bgi.get_write_mode()));
    let pos = bgi.out_text_xy(0, 0, ""); // returns current_pos for the empty string
    v.push(pos.x as i64);
    v.push(pos.y as i64);
    v.push(i64::from(bgi.suspend_text));
    for b in bgi.get_fill_pattern() {
        v.push(*b as i64);
    }
    let pal = bgi.get_palette();
    v.push(pal.len() as i64);
    let mut ph: u64 = 7;
    for i in 0..pal.len() {
        let (r, g, b) = pal.get_rgb(i as u32);
        for x in [r, g, b] {
            ph = (ph * 31 + x as u64 + 1) & 0xffff_ffff;
        }
    }
    v.push(ph as i64);
    v.push(bgi.screen.len() as i64);
    v.push(hash(&bgi.screen));
    // epilogue: make the viewport visible — plot a fixed set of probe pixels in colour 9 (write mode as left by the
    // stream), then fill the part of the viewport that lies in the top 8 rows with the current fill style
    for (x, y) in [(0, 0), (639, 0), (640, 0), (0, 349), (639, 349), (0, 350), (100, 100), (320, 175), (700, 10), (1295, 1295), (5, 400)] {
        bgi.put_pixel(x, y, 9);
    }
    v.push(hash(&bgi.screen));
    bgi.bar(0, 0, 1295, 7);
    v.push(bgi.screen.len() as i64);
    v.push(hash(&bgi.screen));
    if ext {
        v.push(ls_code(bgi.get_line_style()));
        v.push(bgi.get_line_thickness() as i64);
        bgi.line(0, 12, 47, 12);
        bgi.line(50, 3, 50, 30);
        bgi.line(2, 2, 30, 21);
        v.push(hash(&bgi.screen));
    }
    Ok(v)
}

fn igs(args: &[&str]) -> Obs {
    let _q = Quiet::new();
    let exe: Arc<Mutex<Box<dyn icy_engine::igs::CommandExecutor>>> = Arc::new(Mutex::new(Box::<icy_engine::igs::DrawExecutor>::default()));
    let mut p = icy_engine::igs::Parser::new(exe.clone());
    let (mut buf, mut caret) = new_buf();
    let mut v = Vec::new();
    let mut c = Counts { chars: 0, ok: 0, err: 0 };
    let mut steps = 0i64;
    for a in args {
        for b in unhex(a) {
            c.chars += 1;
            match p.print_char(&mut buf, 0, &mut caret, char::from(b)) {
                Ok(_) => c.ok += 1,
                Err(_) => c.err += 1,
            }
            for _ in 0..64 {
                if p.get_next_action(&mut buf, &mut caret, 0).is_none() {
                    break;
                }
                steps += 1;
            }
        }
        let res = exe.lock().unwrap().get_resolution();
        v.extend([c.chars, c.ok, c.err, steps, res.width as i64, res.height as i64]);
        match p.get_picture_data() {
            Some((sz, px)) => v.extend([1, sz.width as i64, sz.height as i64, px.len() as i64]),
            None => v.extend([0, 0, 0, 0]),
        }
    }
    Ok(v)
}

/// extension (IGS tokenizer + pixel kernel): `igsobs <hex>` — the igs protocol (at most 64 get_next_action calls after every
/// character, stopping at the first None), observation [err count; loop steps; width; height; picture length; picture hash]
fn igsobs(args: &[&str]) -> Obs {
    let _q = Quiet::new();
    let exe: Arc<Mutex<Box<dyn icy_engine::igs::CommandExecutor>>> = Arc::new(Mutex::new(Box::<icy_engine::igs::DrawExecutor>::default()));
    let mut p = icy_engine::igs::Parser::new(exe.clone());
    let (mut buf, mut caret) = new_buf();
    let mut err = 0i64;
    let mut steps = 0i64;
    for b in unhex(args[0]) {
        if p.print_char(&mut buf, 0, &mut caret, char::from(b)).is_err() {
            err += 1;
        }
        for _ in 0..64 {
            if p.get_next_action(&mut buf, &mut caret, 0).is_none() {
                break;
            }
            steps += 1;
        }
    }
    let res = exe.lock().unwrap().get_resolution();
    let mut v = vec![err, steps, res.width as i64, res.height as i64];
    match p.get_picture_data() {
        Some((_, px)) => v.extend([px.len() as i64, hash(&px)]),
        None => v.extend([-1, -1]),
    }
    Ok(v)
}

/// `igspix <hex>`: feed the stream (same protocol) and list the pixels it changed: [width; height; count; offset…]
/// (offset = y * width + x; at most 5000 offsets; count -1 when the stream changed the resolution). For the line-clipping oracle.
fn igspix(args: &[&str]) -> Obs {
    let _q = Quiet::new();
    let exe: Arc<Mutex<Box<dyn icy_engine::igs::CommandExecutor>>> = Arc::new(Mutex::new(Box::<icy_engine::igs::DrawExecutor>::default()));
    let mut p = icy_engine::igs::Parser::new(exe.clone());
    let (mut buf, mut caret) = new_buf();
    let before = p.get_picture_data().map(|(_, px)| px).unwrap_or_default();
    for b in unhex(args[0]) {
        let _ = p.print_char(&mut buf, 0, &mut caret, char::from(b));
        for _ in 0..64 {
            if p.get_next_action(&mut buf, &mut caret, 0).is_none() {
                break;
            }
        }
    }
    let res = exe.lock().unwrap().get_resolution();
    let after = p.get_picture_data().map(|(_, px)| px).unwrap_or_default();
    let mut v = vec![res.width as i64, res.height as i64];
    if after.len() != before.len() {
        v.push(-1);
        return Ok(v);
    }
    let changed: Vec<i64> = (0..after.len() / 4).filter(|i| after[i * 4..i * 4 + 4] != before[i * 4..i * 4 + 4]).map(|i| i as i64).collect();
    v.push(changed.len() as i64);
    v.extend(changed.iter().take(5000));
    Ok(v)
}

/// `igsdrain <hex> <n>`: feed the stream (same protocol), then call get_next_action up to n more times;
/// [steps during the stream; further steps; 1 if the loop ended (None) within n calls else 0]
fn igsdrain(args: &[&str]) -> Obs {
    let _q = Quiet::new();
    let exe: Arc<Mutex<Box<dyn icy_engine::igs::CommandExecutor>>> = Arc::new(Mutex::new(Box::<icy_engine::igs::DrawExecutor>::default()));
    let mut p = icy_engine::igs::Parser::new(exe.clone());
    let (mut buf, mut caret) = new_buf();
    let n: i64 = args.get(1).and_then(|s| s.parse().ok()).unwrap_or(1000);
    let mut steps = 0i64;
    for b in unhex(args[0]) {
        let _ = p.print_char(&mut buf, 0, &mut caret, char::from(b));
        for _ in 0..64 {
            if p.get_next_action(&mut buf, &mut caret, 0).is_none() {
                break;
            }
            steps += 1;
        }
    }
    let mut more = 0i64;
    let mut ended = 0i64;
    for _ in 0..n {
        if p.get_next_action(&mut buf, &mut caret, 0).is_none() {
            ended = 1;
            break;
        }
        more += 1;
    }
    Ok(vec![steps, more, ended])
}

/// attribution of a stall / abort inside a sequence: one chunk per command, progress on stderr (the driver reports the last
/// stderr line of a worker that died), CPU milliseconds per chunk on success
fn timed(lang: &str, args: &[&str]) -> Obs {
    let _q = Quiet::new();
    let mut v = Vec::new();
    let (mut buf, mut caret) = new_buf();
    if lang == "rip" {
        let mut p = icy_engine::rip::Parser::new(Box::default(), icon_dir());
        let mut c = Counts { chars: 0, ok: 0, err: 0 };
        for (i, a) in args.iter().enumerate() {
            eprintln!("c20-progress {i}");
            let t = cpu_ms();
            feed_rip(&mut p, &mut buf, &mut caret, &unhex(a), &mut c);
            v.push(cpu_ms() - t);
        }
    } else {
        let exe: Arc<Mutex<Box<dyn icy_engine::igs::CommandExecutor>>> = Arc::new(Mutex::new(Box::<icy_engine::igs::DrawExecutor>::default()));
        let mut p = icy_engine::igs::Parser::new(exe.clone());
        for (i, a) in args.iter().enumerate() {
            eprintln!("c20-progress {i}");
            let t = cpu_ms();
            for b in unhex(a) {
                let _ = p.print_char(&mut buf, 0, &mut caret, char::from(b));
                for _ in 0..64 {
                    if p.get_next_action(&mut buf, &mut caret, 0).is_none() {
                        break;
                    }
                }
            }
            v.push(cpu_ms() - t);
        }
    }
    Ok(v)
}

pub fn run(kind: &str, args: &[&str]) -> Option<Obs> {
    Some(match kind {
        "rip" | "ripseq" => rip(args),
        "ripobs" => ripobs(args),
        "ripobs2" => ripobs2(args),
        "ripline" => ripline(args),
        "igs" | "igsseq" => igs(args),
        "igsobs" => igsobs(args),
        "igsdrain" => igsdrain(args),
        "igspix" => igspix(args),
        "riptime" => timed("rip", args),
        "igstime" => timed("igs", args),
        _ => return None,
    })
}
